//! Simulated network: reliable ordered byte streams (TCP and Unix sockets share one implementation)
//! with latency, fragmentation, back-pressure, reset, partition; and lossy datagrams (UDP).

use crate::ctx::{self, NodeId};
use std::collections::{BTreeMap, VecDeque};
use std::future::Future;
use std::io;
use std::net::{IpAddr, SocketAddr as StdSocketAddr};
use std::path::{Path, PathBuf};
use std::pin::Pin;
use std::sync::{Arc, Mutex};
use std::task::{Context, Poll, Waker};
use std::time::Duration;
use tokio::io::{AsyncRead, AsyncWrite, ReadBuf};
use tokio::time::{Instant, Sleep};

// ------------------------------------------------------------------------------------------------
// addresses

#[derive(Clone, Debug, PartialEq, Eq, PartialOrd, Ord)]
pub enum Addr {
    Unix(PathBuf),
    Tcp(StdSocketAddr),
}

fn parse_host_port(s: &str) -> io::Result<StdSocketAddr> {
    if let Ok(a) = s.parse::<StdSocketAddr>() {
        return Ok(a);
    }
    // host:port with a name → deterministic fake resolution: "localhost" → 127.0.0.1, others by table
    let (host, port) = s
        .rsplit_once(':')
        .ok_or_else(|| io::Error::new(io::ErrorKind::InvalidInput, "invalid socket address"))?;
    let port: u16 = port
        .parse()
        .map_err(|_| io::Error::new(io::ErrorKind::InvalidInput, "invalid port value"))?;
    let ip = resolve_host(host)?;
    Ok(StdSocketAddr::new(ip, port))
}

pub fn resolve_host(host: &str) -> io::Result<IpAddr> {
    if let Ok(ip) = host.parse::<IpAddr>() {
        return Ok(ip);
    }
    if host == "localhost" {
        return Ok(IpAddr::from([127, 0, 0, 1]));
    }
    let found = ctx::with(|s| s.net.hosts.get(host).cloned());
    found.ok_or_else(|| {
        io::Error::new(
            io::ErrorKind::Other,
            format!("failed to lookup address information: {host}"),
        )
    })
}

pub trait ToSimAddr {
    fn to_sim_addr(&self) -> io::Result<StdSocketAddr>;
}
impl ToSimAddr for StdSocketAddr {
    fn to_sim_addr(&self) -> io::Result<StdSocketAddr> {
        Ok(*self)
    }
}
impl ToSimAddr for &StdSocketAddr {
    fn to_sim_addr(&self) -> io::Result<StdSocketAddr> {
        Ok(**self)
    }
}
impl ToSimAddr for String {
    fn to_sim_addr(&self) -> io::Result<StdSocketAddr> {
        parse_host_port(self)
    }
}
impl ToSimAddr for &String {
    fn to_sim_addr(&self) -> io::Result<StdSocketAddr> {
        parse_host_port(self)
    }
}
impl ToSimAddr for &str {
    fn to_sim_addr(&self) -> io::Result<StdSocketAddr> {
        parse_host_port(self)
    }
}
impl ToSimAddr for (IpAddr, u16) {
    fn to_sim_addr(&self) -> io::Result<StdSocketAddr> {
        Ok(StdSocketAddr::new(self.0, self.1))
    }
}
impl ToSimAddr for (&str, u16) {
    fn to_sim_addr(&self) -> io::Result<StdSocketAddr> {
        Ok(StdSocketAddr::new(resolve_host(self.0)?, self.1))
    }
}
impl ToSimAddr for (String, u16) {
    fn to_sim_addr(&self) -> io::Result<StdSocketAddr> {
        Ok(StdSocketAddr::new(resolve_host(&self.0)?, self.1))
    }
}

// ------------------------------------------------------------------------------------------------
// pipes

struct Pipe {
    /// chunks in flight: (deliver_at, bytes)
    flight: VecDeque<(Instant, Vec<u8>)>,
    /// bytes that have arrived and not been read
    ready: VecDeque<u8>,
    in_flight_bytes: usize,
    capacity: usize,
    last_deliver: Option<Instant>,
    /// writer closed: EOF after everything was read
    eof: bool,
    /// connection reset: both directions fail
    reset: bool,
    /// partition: nothing is delivered while set
    held: bool,
    reader_waker: Option<Waker>,
    writer_waker: Option<Waker>,
    bytes_total: u64,
}

impl Pipe {
    fn new(capacity: usize) -> Pipe {
        Pipe {
            flight: VecDeque::new(),
            ready: VecDeque::new(),
            in_flight_bytes: 0,
            capacity,
            last_deliver: None,
            eof: false,
            reset: false,
            held: false,
            reader_waker: None,
            writer_waker: None,
            bytes_total: 0,
        }
    }
    fn wake_reader(&mut self) {
        if let Some(w) = self.reader_waker.take() {
            w.wake();
        }
    }
    fn wake_writer(&mut self) {
        if let Some(w) = self.writer_waker.take() {
            w.wake();
        }
    }
    fn used(&self) -> usize {
        self.ready.len() + self.in_flight_bytes
    }
    fn promote(&mut self, now: Instant) {
        if self.held {
            return;
        }
        while let Some((at, _)) = self.flight.front() {
            if *at <= now {
                let (_, bytes) = self.flight.pop_front().expect("front exists");
                self.in_flight_bytes -= bytes.len();
                self.ready.extend(bytes);
            } else {
                break;
            }
        }
    }
}

pub struct ConnShared {
    pub id: u64,
    /// a→b and b→a; endpoint 0 writes pipes[0] and reads pipes[1]
    pipes: [Mutex<Pipe>; 2],
    pub owners: [NodeId; 2],
    pub label: String,
}

type Conn = Arc<ConnShared>;

pub struct ReadHalf {
    conn: Conn,
    side: usize,
    timer: Option<Pin<Box<Sleep>>>,
    node: NodeId,
}

pub struct WriteHalf {
    conn: Conn,
    side: usize,
    node: NodeId,
    shutdown_on_drop: bool,
}

enum IoPlan {
    Dead,
    PendingFirst,
    Go { limit: usize },
}

fn io_plan(node: NodeId) -> IoPlan {
    ctx::with(|s| {
        if !s.node_alive(node) {
            return IoPlan::Dead;
        }
        let k = s.knobs.clone();
        if k.p_io_pending > 0 && s.tape.chance(k.p_io_pending, 1000) {
            s.count("io_pending_first");
            return IoPlan::PendingFirst;
        }
        let limit = if k.p_frag > 0 && s.tape.chance(k.p_frag, 1000) {
            s.count("io_fragment");
            s.tape.range(1, k.frag_max.max(1) as u64) as usize
        } else {
            usize::MAX
        };
        IoPlan::Go { limit }
    })
}

impl ReadHalf {
    fn pipe(&self) -> &Mutex<Pipe> {
        &self.conn.pipes[1 - self.side]
    }

    fn poll_read_inner(
        &mut self,
        cx: &mut Context<'_>,
        buf: &mut ReadBuf<'_>,
        consume: bool,
    ) -> Poll<io::Result<usize>> {
        let limit = match io_plan(self.node) {
            IoPlan::Dead => return Poll::Pending,
            IoPlan::PendingFirst => {
                cx.waker().wake_by_ref();
                return Poll::Pending;
            }
            IoPlan::Go { limit } => limit,
        };
        let now = Instant::now();
        let mut p = self.pipe().lock().expect("pipe");
        if p.reset {
            return Poll::Ready(Err(io::Error::new(
                io::ErrorKind::ConnectionReset,
                "connection reset by peer",
            )));
        }
        p.promote(now);
        if !p.ready.is_empty() {
            let n = p.ready.len().min(buf.remaining()).min(limit);
            if n == 0 {
                return Poll::Ready(Ok(0));
            }
            if consume {
                for _ in 0..n {
                    let b = p.ready.pop_front().expect("len checked");
                    buf.put_slice(&[b]);
                }
                p.wake_writer();
            }
            drop(p);
            self.timer = None;
            return Poll::Ready(Ok(n));
        }
        if p.flight.is_empty() && p.eof {
            return Poll::Ready(Ok(0));
        }
        p.reader_waker = Some(cx.waker().clone());
        let next = if p.held {
            None
        } else {
            p.flight.front().map(|(at, _)| *at)
        };
        drop(p);
        if let Some(at) = next {
            let mut sl = Box::pin(tokio::time::sleep_until(at));
            match sl.as_mut().poll(cx) {
                Poll::Ready(()) => {
                    cx.waker().wake_by_ref();
                }
                Poll::Pending => self.timer = Some(sl),
            }
        } else {
            self.timer = None;
        }
        Poll::Pending
    }
}

impl AsyncRead for ReadHalf {
    fn poll_read(
        mut self: Pin<&mut Self>,
        cx: &mut Context<'_>,
        buf: &mut ReadBuf<'_>,
    ) -> Poll<io::Result<()>> {
        match self.poll_read_inner(cx, buf, true) {
            Poll::Ready(Ok(_)) => Poll::Ready(Ok(())),
            Poll::Ready(Err(e)) => Poll::Ready(Err(e)),
            Poll::Pending => Poll::Pending,
        }
    }
}

impl Drop for ReadHalf {
    fn drop(&mut self) {
        // reader gone: the peer's writes fail from now on (EPIPE), modelled as reset of that direction
        if let Ok(mut p) = self.pipe().lock() {
            p.reset = true;
            p.wake_writer();
        }
    }
}

impl WriteHalf {
    fn pipe(&self) -> &Mutex<Pipe> {
        &self.conn.pipes[self.side]
    }
}

impl AsyncWrite for WriteHalf {
    fn poll_write(
        self: Pin<&mut Self>,
        cx: &mut Context<'_>,
        data: &[u8],
    ) -> Poll<io::Result<usize>> {
        let limit = match io_plan(self.node) {
            IoPlan::Dead => return Poll::Pending,
            IoPlan::PendingFirst => {
                cx.waker().wake_by_ref();
                return Poll::Pending;
            }
            IoPlan::Go { limit } => limit,
        };
        if data.is_empty() {
            return Poll::Ready(Ok(0));
        }
        let now = Instant::now();
        let lat = ctx::with(|s| {
            let (lo, hi) = (s.knobs.lat_min_us, s.knobs.lat_max_us);
            if hi == 0 { 0 } else { s.tape.range(lo, hi) }
        });
        let mut p = self.pipe().lock().expect("pipe");
        if p.reset || p.eof {
            return Poll::Ready(Err(io::Error::new(
                io::ErrorKind::BrokenPipe,
                "broken pipe",
            )));
        }
        let free = p.capacity.saturating_sub(p.used());
        if free == 0 {
            p.writer_waker = Some(cx.waker().clone());
            drop(p);
            ctx::with(|s| s.count("net_backpressure"));
            return Poll::Pending;
        }
        let n = data.len().min(free).min(limit);
        let mut at = now + Duration::from_micros(lat);
        if let Some(last) = p.last_deliver {
            if at < last {
                at = last;
            }
        }
        p.last_deliver = Some(at);
        p.bytes_total += n as u64;
        if at <= now && p.flight.is_empty() && !p.held {
            p.ready.extend(&data[..n]);
        } else {
            p.in_flight_bytes += n;
            p.flight.push_back((at, data[..n].to_vec()));
        }
        p.wake_reader();
        drop(p);
        ctx::with(|s| {
            s.mix(0xB17E ^ (n as u64) << 8 ^ self.conn.id << 40);
            let id = self.conn.id;
            let side = self.side;
            s.note(|| format!("write conn{id}.{side} {n}B lat{lat}"));
        });
        Poll::Ready(Ok(n))
    }

    fn poll_flush(self: Pin<&mut Self>, _cx: &mut Context<'_>) -> Poll<io::Result<()>> {
        let alive = ctx::with(|s| s.node_alive(self.node));
        if !alive {
            return Poll::Pending;
        }
        let p = self.pipe().lock().expect("pipe");
        if p.reset {
            return Poll::Ready(Err(io::Error::new(
                io::ErrorKind::BrokenPipe,
                "broken pipe",
            )));
        }
        Poll::Ready(Ok(()))
    }

    fn poll_shutdown(self: Pin<&mut Self>, _cx: &mut Context<'_>) -> Poll<io::Result<()>> {
        let mut p = self.pipe().lock().expect("pipe");
        p.eof = true;
        p.wake_reader();
        Poll::Ready(Ok(()))
    }
}

impl Drop for WriteHalf {
    fn drop(&mut self) {
        if self.shutdown_on_drop {
            if let Ok(mut p) = self.pipe().lock() {
                p.eof = true;
                p.wake_reader();
            }
        }
    }
}

/// A full-duplex simulated stream.
pub struct Stream {
    r: ReadHalf,
    w: WriteHalf,
}

fn new_conn(label: String, owner_a: NodeId, owner_b: NodeId) -> (Stream, Stream) {
    let (id, cap) = ctx::with(|s| {
        s.net.next_conn += 1;
        (s.net.next_conn, s.knobs.pipe_capacity)
    });
    let conn = Arc::new(ConnShared {
        id,
        pipes: [Mutex::new(Pipe::new(cap)), Mutex::new(Pipe::new(cap))],
        owners: [owner_a, owner_b],
        label,
    });
    ctx::with(|s| s.net.conns.push(Arc::downgrade(&conn)));
    let mk = |side: usize, node: NodeId| Stream {
        r: ReadHalf {
            conn: conn.clone(),
            side,
            timer: None,
            node,
        },
        w: WriteHalf {
            conn: conn.clone(),
            side,
            node,
            shutdown_on_drop: true,
        },
    };
    (mk(0, owner_a), mk(1, owner_b))
}

impl Stream {
    pub fn conn_id(&self) -> u64 {
        self.r.conn.id
    }
    pub fn into_halves(self) -> (ReadHalf, WriteHalf) {
        (self.r, self.w)
    }
    /// abrupt close: both directions fail at the peer (RST)
    pub fn reset(&self) {
        reset_conn(&self.r.conn);
    }
}

impl ReadHalf {
    pub fn conn_id(&self) -> u64 {
        self.conn.id
    }
    pub fn reset(&self) {
        reset_conn(&self.conn);
    }
}
impl WriteHalf {
    pub fn conn_id(&self) -> u64 {
        self.conn.id
    }
    pub fn reset(&self) {
        reset_conn(&self.conn);
    }
}

fn reset_conn(conn: &Conn) {
    for p in conn.pipes.iter() {
        if let Ok(mut p) = p.lock() {
            p.reset = true;
            p.wake_reader();
            p.wake_writer();
        }
    }
}

impl AsyncRead for Stream {
    fn poll_read(
        mut self: Pin<&mut Self>,
        cx: &mut Context<'_>,
        buf: &mut ReadBuf<'_>,
    ) -> Poll<io::Result<()>> {
        Pin::new(&mut self.r).poll_read(cx, buf)
    }
}
impl AsyncWrite for Stream {
    fn poll_write(
        mut self: Pin<&mut Self>,
        cx: &mut Context<'_>,
        data: &[u8],
    ) -> Poll<io::Result<usize>> {
        Pin::new(&mut self.w).poll_write(cx, data)
    }
    fn poll_flush(mut self: Pin<&mut Self>, cx: &mut Context<'_>) -> Poll<io::Result<()>> {
        Pin::new(&mut self.w).poll_flush(cx)
    }
    fn poll_shutdown(mut self: Pin<&mut Self>, cx: &mut Context<'_>) -> Poll<io::Result<()>> {
        Pin::new(&mut self.w).poll_shutdown(cx)
    }
}

// ------------------------------------------------------------------------------------------------
// listeners and registry

struct ListenerState {
    queue: VecDeque<(Stream, Addr)>,
    waker: Option<Waker>,
    owner: NodeId,
    closed: bool,
}

type ListenerRef = Arc<Mutex<ListenerState>>;

#[derive(Default)]
pub struct NetState {
    listeners: BTreeMap<Addr, ListenerRef>,
    pub next_conn: u64,
    conns: Vec<std::sync::Weak<ConnShared>>,
    pub hosts: BTreeMap<String, IpAddr>,
    next_ephemeral: u16,
    udp: BTreeMap<StdSocketAddr, Arc<Mutex<UdpState>>>,
    /// pairs of nodes that cannot talk (UDP dropped, TCP held)
    pub partitions: Vec<(NodeId, NodeId)>,
    /// node → ip used as source address for its outgoing traffic
    pub node_ip: BTreeMap<NodeId, IpAddr>,
    pub udp_log: Option<Vec<UdpLogEntry>>,
}

#[derive(Clone, Debug)]
pub struct UdpLogEntry {
    /// datagram id: the copies of a duplicated datagram and its send entry share it
    pub id: u64,
    pub seq: u64,
    pub kind: &'static str, // "send" | "deliver" | "drop" | "dup"
    pub from: StdSocketAddr,
    pub to: StdSocketAddr,
    pub data: Vec<u8>,
    pub at_us: u64,
}

fn lookup_listener(addr: &Addr) -> Option<ListenerRef> {
    ctx::with(|s| {
        if let Some(l) = s.net.listeners.get(addr) {
            return Some(l.clone());
        }
        if let Addr::Tcp(sa) = addr {
            // wildcard bind
            for (k, l) in s.net.listeners.iter() {
                if let Addr::Tcp(b) = k {
                    if b.port() == sa.port() && b.ip().is_unspecified() {
                        return Some(l.clone());
                    }
                }
            }
        }
        None
    })
}

fn register_listener(addr: Addr) -> io::Result<ListenerRef> {
    ctx::with(|s| {
        if let Some(old) = s.net.listeners.get(&addr) {
            let old_closed = old.lock().map(|o| o.closed).unwrap_or(true);
            let owner_dead = old
                .lock()
                .map(|o| !s.node_alive(o.owner))
                .unwrap_or(true);
            if !old_closed && !owner_dead {
                return Err(io::Error::new(
                    io::ErrorKind::AddrInUse,
                    "address already in use",
                ));
            }
        }
        let l = Arc::new(Mutex::new(ListenerState {
            queue: VecDeque::new(),
            waker: None,
            owner: s.cur_node,
            closed: false,
        }));
        s.net.listeners.insert(addr, l.clone());
        Ok(l)
    })
}

async fn connect_to(addr: Addr) -> io::Result<Stream> {
    let me = ctx::current_node();
    if !ctx::with(|s| s.node_alive(me)) {
        std::future::pending::<()>().await;
    }
    let l = lookup_listener(&addr).ok_or_else(|| {
        io::Error::new(io::ErrorKind::ConnectionRefused, "connection refused")
    })?;
    let (owner, closed) = {
        let g = l.lock().expect("listener");
        (g.owner, g.closed)
    };
    let owner_alive = ctx::with(|s| s.node_alive(owner));
    if closed || !owner_alive {
        return Err(io::Error::new(
            io::ErrorKind::ConnectionRefused,
            "connection refused",
        ));
    }
    let peer_addr = match &addr {
        Addr::Unix(_) => Addr::Unix(PathBuf::new()),
        Addr::Tcp(_) => {
            let (ip, port) = ctx::with(|s| {
                s.net.next_ephemeral = s.net.next_ephemeral.wrapping_add(1);
                let ip = s
                    .net
                    .node_ip
                    .get(&me)
                    .cloned()
                    .unwrap_or(IpAddr::from([127, 0, 0, 1]));
                (ip, 40000 + (s.net.next_ephemeral % 20000))
            });
            Addr::Tcp(StdSocketAddr::new(ip, port))
        }
    };
    let (a, b) = new_conn(format!("{addr:?}"), me, owner);
    {
        let mut g = l.lock().expect("listener");
        g.queue.push_back((b, peer_addr));
        if let Some(w) = g.waker.take() {
            w.wake();
        }
    }
    ctx::with(|s| {
        s.count("net_connect");
        let id = a.conn_id();
        s.mix(0xC044 ^ id << 16);
    });
    Ok(a)
}

struct Accept<'a> {
    l: &'a ListenerRef,
    node: NodeId,
}

impl Future for Accept<'_> {
    type Output = io::Result<(Stream, Addr)>;
    fn poll(self: Pin<&mut Self>, cx: &mut Context<'_>) -> Poll<Self::Output> {
        if !ctx::with(|s| s.node_alive(self.node)) {
            return Poll::Pending;
        }
        let mut g = self.l.lock().expect("listener");
        if let Some(x) = g.queue.pop_front() {
            return Poll::Ready(Ok(x));
        }
        g.waker = Some(cx.waker().clone());
        Poll::Pending
    }
}

fn close_listener(l: &ListenerRef) {
    if let Ok(mut g) = l.lock() {
        g.closed = true;
        // connections that were never accepted are reset
        for (s, _) in g.queue.drain(..) {
            s.reset();
        }
    }
}

/// Reset every connection endpoint owned by `node` (called when the node is killed).
pub fn reset_node_endpoints(node: NodeId) {
    let conns: Vec<Conn> = ctx::with(|s| {
        s.net.conns.retain(|w| w.strong_count() > 0);
        s.net.conns.iter().filter_map(|w| w.upgrade()).collect()
    });
    for c in conns {
        if c.owners[0] == node || c.owners[1] == node {
            // what the kernel does with the sockets of a killed process: an orderly close (the
            // peer reads what is in flight, then EOF; its own writes fail) — or, when unread data
            // was pending, a reset. Drawn per connection.
            let fin = ctx::with(|s| s.tape.chance(1, 2));
            if fin && c.owners[0] != c.owners[1] {
                let dead_side = if c.owners[0] == node { 0 } else { 1 };
                if let Ok(mut p) = c.pipes[dead_side].lock() {
                    p.eof = true;
                    p.wake_reader();
                    p.wake_writer();
                }
                if let Ok(mut p) = c.pipes[1 - dead_side].lock() {
                    p.reset = true;
                    p.wake_reader();
                    p.wake_writer();
                }
                ctx::with(|s| s.count("net_close_by_kill_fin"));
            } else {
                reset_conn(&c);
                ctx::with(|s| s.count("net_close_by_kill_rst"));
            }
        }
    }
    let ls: Vec<ListenerRef> = ctx::with(|s| s.net.listeners.values().cloned().collect());
    for l in ls {
        let owned = l.lock().map(|g| g.owner == node).unwrap_or(false);
        if owned {
            close_listener(&l);
        }
    }
    let socks: Vec<Arc<Mutex<UdpState>>> = ctx::with(|s| s.net.udp.values().cloned().collect());
    for u in socks {
        if let Ok(mut g) = u.lock() {
            if g.owner == node {
                g.closed = true;
            }
        }
    }
}

/// Hold (partition) or release all stream traffic between two nodes.
pub fn set_partition(a: NodeId, b: NodeId, on: bool) {
    let conns: Vec<Conn> = ctx::with(|s| {
        if on {
            if !s.net.partitions.contains(&(a, b)) {
                s.net.partitions.push((a, b));
                s.count("net_partition");
            }
        } else {
            s.net.partitions.retain(|p| *p != (a, b) && *p != (b, a));
            s.count("net_heal");
        }
        s.net.conns.iter().filter_map(|w| w.upgrade()).collect()
    });
    for c in conns {
        let o = c.owners;
        if (o[0] == a && o[1] == b) || (o[0] == b && o[1] == a) {
            for p in c.pipes.iter() {
                if let Ok(mut p) = p.lock() {
                    p.held = on;
                    if !on {
                        p.wake_reader();
                    }
                }
            }
        }
    }
}

fn partitioned(a: NodeId, b: NodeId) -> bool {
    ctx::with(|s| {
        s.net
            .partitions
            .iter()
            .any(|p| *p == (a, b) || *p == (b, a))
    })
}

// ------------------------------------------------------------------------------------------------
// Unix sockets (API shape of tokio::net)

pub mod unix {
    use super::*;

    #[derive(Clone)]
    pub struct SocketAddr(pub(super) Option<PathBuf>);
    impl std::fmt::Debug for SocketAddr {
        fn fmt(&self, f: &mut std::fmt::Formatter<'_>) -> std::fmt::Result {
            match &self.0 {
                Some(p) if !p.as_os_str().is_empty() => write!(f, "{p:?} (pathname)"),
                _ => write!(f, "(unnamed)"),
            }
        }
    }
    impl SocketAddr {
        pub fn as_pathname(&self) -> Option<&Path> {
            self.0.as_deref()
        }
        pub fn is_unnamed(&self) -> bool {
            self.0.is_none()
        }
    }

    pub struct OwnedReadHalf(pub(super) ReadHalf);
    pub struct OwnedWriteHalf(pub(super) WriteHalf);

    impl OwnedReadHalf {
        pub fn sim(&self) -> &ReadHalf {
            &self.0
        }
    }
    impl OwnedWriteHalf {
        pub fn sim(&self) -> &WriteHalf {
            &self.0
        }
    }

    impl AsyncRead for OwnedReadHalf {
        fn poll_read(
            mut self: Pin<&mut Self>,
            cx: &mut Context<'_>,
            buf: &mut ReadBuf<'_>,
        ) -> Poll<io::Result<()>> {
            Pin::new(&mut self.0).poll_read(cx, buf)
        }
    }
    impl AsyncWrite for OwnedWriteHalf {
        fn poll_write(
            mut self: Pin<&mut Self>,
            cx: &mut Context<'_>,
            data: &[u8],
        ) -> Poll<io::Result<usize>> {
            Pin::new(&mut self.0).poll_write(cx, data)
        }
        fn poll_flush(mut self: Pin<&mut Self>, cx: &mut Context<'_>) -> Poll<io::Result<()>> {
            Pin::new(&mut self.0).poll_flush(cx)
        }
        fn poll_shutdown(mut self: Pin<&mut Self>, cx: &mut Context<'_>) -> Poll<io::Result<()>> {
            Pin::new(&mut self.0).poll_shutdown(cx)
        }
    }
}

pub struct UnixListener {
    l: ListenerRef,
    path: PathBuf,
}

impl UnixListener {
    pub fn bind(path: impl AsRef<Path>) -> io::Result<UnixListener> {
        let path = path.as_ref().to_path_buf();
        let l = register_listener(Addr::Unix(path.clone()))?;
        Ok(UnixListener { l, path })
    }
    pub async fn accept(&self) -> io::Result<(UnixStream, unix::SocketAddr)> {
        let node = ctx::current_node();
        let (s, _a) = Accept { l: &self.l, node }.await?;
        Ok((UnixStream(s), unix::SocketAddr(None)))
    }
    pub fn local_addr(&self) -> io::Result<unix::SocketAddr> {
        Ok(unix::SocketAddr(Some(self.path.clone())))
    }
}

impl Drop for UnixListener {
    fn drop(&mut self) {
        close_listener(&self.l);
    }
}

pub struct UnixStream(Stream);

impl UnixStream {
    pub async fn connect(path: impl AsRef<Path>) -> io::Result<UnixStream> {
        let s = connect_to(Addr::Unix(path.as_ref().to_path_buf())).await?;
        Ok(UnixStream(s))
    }
    pub fn into_split(self) -> (unix::OwnedReadHalf, unix::OwnedWriteHalf) {
        let (r, w) = self.0.into_halves();
        (unix::OwnedReadHalf(r), unix::OwnedWriteHalf(w))
    }
    pub fn sim(&self) -> &Stream {
        &self.0
    }
    pub fn into_sim(self) -> Stream {
        self.0
    }
}

impl AsyncRead for UnixStream {
    fn poll_read(
        mut self: Pin<&mut Self>,
        cx: &mut Context<'_>,
        buf: &mut ReadBuf<'_>,
    ) -> Poll<io::Result<()>> {
        Pin::new(&mut self.0).poll_read(cx, buf)
    }
}
impl AsyncWrite for UnixStream {
    fn poll_write(
        mut self: Pin<&mut Self>,
        cx: &mut Context<'_>,
        data: &[u8],
    ) -> Poll<io::Result<usize>> {
        Pin::new(&mut self.0).poll_write(cx, data)
    }
    fn poll_flush(mut self: Pin<&mut Self>, cx: &mut Context<'_>) -> Poll<io::Result<()>> {
        Pin::new(&mut self.0).poll_flush(cx)
    }
    fn poll_shutdown(mut self: Pin<&mut Self>, cx: &mut Context<'_>) -> Poll<io::Result<()>> {
        Pin::new(&mut self.0).poll_shutdown(cx)
    }
}

// ------------------------------------------------------------------------------------------------
// TCP

pub mod tcp {
    use super::*;
    pub struct OwnedReadHalf(pub(super) ReadHalf);
    pub struct OwnedWriteHalf(pub(super) WriteHalf);
    impl OwnedReadHalf {
        pub fn sim(&self) -> &ReadHalf {
            &self.0
        }
    }
    impl OwnedWriteHalf {
        pub fn sim(&self) -> &WriteHalf {
            &self.0
        }
    }
    impl AsyncRead for OwnedReadHalf {
        fn poll_read(
            mut self: Pin<&mut Self>,
            cx: &mut Context<'_>,
            buf: &mut ReadBuf<'_>,
        ) -> Poll<io::Result<()>> {
            Pin::new(&mut self.0).poll_read(cx, buf)
        }
    }
    impl AsyncWrite for OwnedWriteHalf {
        fn poll_write(
            mut self: Pin<&mut Self>,
            cx: &mut Context<'_>,
            data: &[u8],
        ) -> Poll<io::Result<usize>> {
            Pin::new(&mut self.0).poll_write(cx, data)
        }
        fn poll_flush(mut self: Pin<&mut Self>, cx: &mut Context<'_>) -> Poll<io::Result<()>> {
            Pin::new(&mut self.0).poll_flush(cx)
        }
        fn poll_shutdown(mut self: Pin<&mut Self>, cx: &mut Context<'_>) -> Poll<io::Result<()>> {
            Pin::new(&mut self.0).poll_shutdown(cx)
        }
    }
}

pub struct TcpStream {
    s: Stream,
    peer: StdSocketAddr,
    local: StdSocketAddr,
}

impl TcpStream {
    pub async fn connect<A: ToSimAddr>(addr: A) -> io::Result<TcpStream> {
        let sa = addr.to_sim_addr()?;
        let s = connect_to(Addr::Tcp(sa)).await?;
        let local = StdSocketAddr::new(IpAddr::from([127, 0, 0, 1]), 0);
        Ok(TcpStream { s, peer: sa, local })
    }
    pub fn into_split(self) -> (tcp::OwnedReadHalf, tcp::OwnedWriteHalf) {
        let (r, w) = self.s.into_halves();
        (tcp::OwnedReadHalf(r), tcp::OwnedWriteHalf(w))
    }
    pub fn peer_addr(&self) -> io::Result<StdSocketAddr> {
        Ok(self.peer)
    }
    pub fn local_addr(&self) -> io::Result<StdSocketAddr> {
        Ok(self.local)
    }
    pub fn set_nodelay(&self, _v: bool) -> io::Result<()> {
        Ok(())
    }
    pub fn sim(&self) -> &Stream {
        &self.s
    }
    /// Wait until data, EOF or an error is available.
    pub async fn readable(&self) -> io::Result<()> {
        Readable { s: self }.await
    }
    pub fn try_read(&self, buf: &mut [u8]) -> io::Result<usize> {
        let now = Instant::now();
        let mut p = self.s.r.pipe().lock().expect("pipe");
        if p.reset {
            return Err(io::Error::new(
                io::ErrorKind::ConnectionReset,
                "connection reset by peer",
            ));
        }
        p.promote(now);
        if !p.ready.is_empty() {
            let n = p.ready.len().min(buf.len());
            for b in buf.iter_mut().take(n) {
                *b = p.ready.pop_front().expect("len checked");
            }
            p.wake_writer();
            return Ok(n);
        }
        if p.flight.is_empty() && p.eof {
            return Ok(0);
        }
        Err(io::Error::new(io::ErrorKind::WouldBlock, "would block"))
    }
}

struct Readable<'a> {
    s: &'a TcpStream,
}
impl Future for Readable<'_> {
    type Output = io::Result<()>;
    fn poll(self: Pin<&mut Self>, cx: &mut Context<'_>) -> Poll<Self::Output> {
        let node = self.s.s.r.node;
        if !ctx::with(|s| s.node_alive(node)) {
            return Poll::Pending;
        }
        let now = Instant::now();
        let mut p = self.s.s.r.pipe().lock().expect("pipe");
        if p.reset {
            return Poll::Ready(Ok(()));
        }
        p.promote(now);
        if !p.ready.is_empty() || (p.flight.is_empty() && p.eof) {
            return Poll::Ready(Ok(()));
        }
        p.reader_waker = Some(cx.waker().clone());
        let next = if p.held {
            None
        } else {
            p.flight.front().map(|(at, _)| *at)
        };
        drop(p);
        if let Some(at) = next {
            // a detached timer wakes this task when the chunk is due
            let w = cx.waker().clone();
            tokio::spawn(async move {
                tokio::time::sleep_until(at).await;
                w.wake();
            });
        }
        Poll::Pending
    }
}

impl AsyncRead for TcpStream {
    fn poll_read(
        mut self: Pin<&mut Self>,
        cx: &mut Context<'_>,
        buf: &mut ReadBuf<'_>,
    ) -> Poll<io::Result<()>> {
        Pin::new(&mut self.s).poll_read(cx, buf)
    }
}
impl AsyncWrite for TcpStream {
    fn poll_write(
        mut self: Pin<&mut Self>,
        cx: &mut Context<'_>,
        data: &[u8],
    ) -> Poll<io::Result<usize>> {
        Pin::new(&mut self.s).poll_write(cx, data)
    }
    fn poll_flush(mut self: Pin<&mut Self>, cx: &mut Context<'_>) -> Poll<io::Result<()>> {
        Pin::new(&mut self.s).poll_flush(cx)
    }
    fn poll_shutdown(mut self: Pin<&mut Self>, cx: &mut Context<'_>) -> Poll<io::Result<()>> {
        Pin::new(&mut self.s).poll_shutdown(cx)
    }
}

/// simulated port of the client endpoint a node opened through `TcpListener::from_std`
pub fn sim_tcp_port_of(node: NodeId) -> u16 {
    18000 + (node % 1000) as u16
}

pub struct TcpListener {
    l: ListenerRef,
    addr: StdSocketAddr,
}

impl TcpListener {
    pub async fn bind<A: ToSimAddr>(addr: A) -> io::Result<TcpListener> {
        let sa = addr.to_sim_addr()?;
        let l = register_listener(Addr::Tcp(sa))?;
        Ok(TcpListener { l, addr: sa })
    }
    /// The real server builds its listener with socket2 and hands it over as a std listener; in
    /// simulation the std listener is only used for its address.
    pub fn from_std(l: std::net::TcpListener) -> io::Result<TcpListener> {
        let mut sa = l.local_addr()?;
        drop(l);
        // the harness lets the real socket bind to port 0 (parallel worker processes must not fight
        // over one kernel port); the kernel's choice must not enter the run, so the simulated
        // endpoint gets a port that is a function of the node alone
        sa.set_port(sim_tcp_port_of(ctx::current_node()));
        let l = register_listener(Addr::Tcp(sa))?;
        Ok(TcpListener { l, addr: sa })
    }
    pub async fn accept(&self) -> io::Result<(TcpStream, StdSocketAddr)> {
        let node = ctx::current_node();
        let (s, a) = Accept { l: &self.l, node }.await?;
        let peer = match a {
            Addr::Tcp(sa) => sa,
            Addr::Unix(_) => StdSocketAddr::new(IpAddr::from([127, 0, 0, 1]), 0),
        };
        Ok((
            TcpStream {
                s,
                peer,
                local: self.addr,
            },
            peer,
        ))
    }
    pub fn local_addr(&self) -> io::Result<StdSocketAddr> {
        Ok(self.addr)
    }
}

impl Drop for TcpListener {
    fn drop(&mut self) {
        close_listener(&self.l);
    }
}

pub struct TcpSocket {
    addr: Mutex<Option<StdSocketAddr>>,
}

impl TcpSocket {
    pub fn new_v4() -> io::Result<TcpSocket> {
        Ok(TcpSocket {
            addr: Mutex::new(None),
        })
    }
    pub fn new_v6() -> io::Result<TcpSocket> {
        Ok(TcpSocket {
            addr: Mutex::new(None),
        })
    }
    pub fn set_reuseaddr(&self, _v: bool) -> io::Result<()> {
        Ok(())
    }
    pub fn set_reuseport(&self, _v: bool) -> io::Result<()> {
        Ok(())
    }
    pub fn bind(&self, addr: StdSocketAddr) -> io::Result<()> {
        *self.addr.lock().expect("addr") = Some(addr);
        Ok(())
    }
    pub fn listen(self, _backlog: u32) -> io::Result<TcpListener> {
        let sa = self
            .addr
            .lock()
            .expect("addr")
            .ok_or_else(|| io::Error::new(io::ErrorKind::InvalidInput, "socket not bound"))?;
        let l = register_listener(Addr::Tcp(sa))?;
        Ok(TcpListener { l, addr: sa })
    }
}

// ------------------------------------------------------------------------------------------------
// UDP

struct UdpState {
    inbox: VecDeque<(Instant, u64, Vec<u8>, StdSocketAddr, u64)>,
    waker: Option<Waker>,
    owner: NodeId,
    closed: bool,
}

pub struct UdpSocket {
    st: Arc<Mutex<UdpState>>,
    addr: StdSocketAddr,
    node: NodeId,
}

impl UdpSocket {
    pub async fn bind<A: ToSimAddr>(addr: A) -> io::Result<UdpSocket> {
        let sa = addr.to_sim_addr()?;
        let node = ctx::current_node();
        let st = Arc::new(Mutex::new(UdpState {
            inbox: VecDeque::new(),
            waker: None,
            owner: node,
            closed: false,
        }));
        ctx::with(|s| {
            if let Some(old) = s.net.udp.get(&sa) {
                let (closed, owner) = old.lock().map(|o| (o.closed, o.owner)).unwrap_or((true, 0));
                if !closed && s.node_alive(owner) {
                    return Err(io::Error::new(
                        io::ErrorKind::AddrInUse,
                        "address already in use",
                    ));
                }
            }
            s.net.udp.insert(sa, st.clone());
            Ok(())
        })?;
        Ok(UdpSocket { st, addr: sa, node })
    }

    pub fn local_addr(&self) -> io::Result<StdSocketAddr> {
        Ok(self.addr)
    }

    pub async fn send_to<A: ToSimAddr>(&self, buf: &[u8], target: A) -> io::Result<usize> {
        if !ctx::with(|s| s.node_alive(self.node)) {
            std::future::pending::<()>().await;
        }
        let to = target.to_sim_addr()?;
        let id = udp_send(self.node, self.addr, to, buf);
        LAST_SENT.with(|l| l.set(id));
        Ok(buf.len())
    }

    /// harness: like `recv_from`, also returns the id of the delivered datagram
    pub async fn recv_with_id(&self, buf: &mut [u8]) -> io::Result<(usize, StdSocketAddr, u64)> {
        let (n, from) = self.recv_from(buf).await?;
        let id = LAST_DELIVERED.with(|l| l.get());
        Ok((n, from, id))
    }

    pub async fn recv(&self, buf: &mut [u8]) -> io::Result<usize> {
        let (n, _) = self.recv_from(buf).await?;
        Ok(n)
    }

    pub async fn recv_from(&self, buf: &mut [u8]) -> io::Result<(usize, StdSocketAddr)> {
        UdpRecv {
            s: self,
            buf,
            timer: None,
        }
        .await
    }
}

impl Drop for UdpSocket {
    fn drop(&mut self) {
        if let Ok(mut g) = self.st.lock() {
            g.closed = true;
        }
    }
}

thread_local! {
    pub static LAST_DELIVERED: std::cell::Cell<u64> = const { std::cell::Cell::new(0) };
}

thread_local! {
    /// id of the datagram most recently sent through `UdpSocket::send_to` on this thread
    pub static LAST_SENT: std::cell::Cell<u64> = const { std::cell::Cell::new(0) };
}

/// Inject/send a datagram (also used by scripted peers of the harness).
pub fn udp_send(from_node: NodeId, from: StdSocketAddr, to: StdSocketAddr, data: &[u8]) -> u64 {
    let now = Instant::now();
    let target = ctx::with(|s| {
        if let Some(t) = s.net.udp.get(&to) {
            return Some(t.clone());
        }
        // sockets bound to the unspecified address receive everything sent to their port
        s.net
            .udp
            .iter()
            .find(|(a, _)| a.port() == to.port() && a.ip().is_unspecified())
            .map(|(_, t)| t.clone())
    });
    let id = ctx::with(|s| {
        s.net.next_conn += 1;
        s.net.next_conn
    });
    let at_us = ctx::now_us();
    let mut copies: Vec<u64> = vec![];
    ctx::with(|s| {
        let k = s.knobs.clone();
        let seq = s.next_seq();
        if let Some(l) = s.net.udp_log.as_mut() {
            l.push(UdpLogEntry {
                id,
                seq,
                kind: "send",
                from,
                to,
                data: data.to_vec(),
                at_us,
            });
        }
        s.count("udp_sent");
        if k.p_udp_drop > 0 && s.tape.chance(k.p_udp_drop, 1000) {
            s.count("udp_dropped");
            if let Some(l) = s.net.udp_log.as_mut() {
                l.push(UdpLogEntry {
                    id,
                    seq,
                    kind: "drop",
                    from,
                    to,
                    data: data.to_vec(),
                    at_us,
                });
            }
            return;
        }
        let lat = if k.udp_lat_max_us > 0 {
            s.tape.range(0, k.udp_lat_max_us)
        } else {
            0
        };
        copies.push(lat);
        if k.p_udp_dup > 0 && s.tape.chance(k.p_udp_dup, 1000) {
            s.count("udp_duplicated");
            let lat2 = if k.udp_lat_max_us > 0 {
                s.tape.range(0, k.udp_lat_max_us * 2)
            } else {
                0
            };
            copies.push(lat2);
        }
    });
    let Some(target) = target else {
        ctx::with(|s| s.count("udp_no_receiver"));
        return id;
    };
    let (owner, closed) = target
        .lock()
        .map(|g| (g.owner, g.closed))
        .unwrap_or((0, true));
    if closed || !ctx::with(|s| s.node_alive(owner)) {
        ctx::with(|s| s.count("udp_no_receiver"));
        return id;
    }
    if partitioned(from_node, owner) {
        ctx::with(|s| s.count("udp_partition_drop"));
        return id;
    }
    for lat in copies {
        let at = now + Duration::from_micros(lat);
        let seq = ctx::with(|s| s.next_seq());
        let mut g = target.lock().expect("udp");
        // keep inbox sorted by (delivery time, seq): independent delays ⇒ reordering
        let pos = g
            .inbox
            .iter()
            .position(|(t, q, _, _, _)| (*t, *q) > (at, seq))
            .unwrap_or(g.inbox.len());
        g.inbox.insert(pos, (at, seq, data.to_vec(), from, id));
        if let Some(w) = g.waker.take() {
            w.wake();
        }
    }
    id
}

struct UdpRecv<'a, 'b> {
    s: &'a UdpSocket,
    buf: &'b mut [u8],
    timer: Option<Pin<Box<Sleep>>>,
}

impl Future for UdpRecv<'_, '_> {
    type Output = io::Result<(usize, StdSocketAddr)>;
    fn poll(mut self: Pin<&mut Self>, cx: &mut Context<'_>) -> Poll<Self::Output> {
        let this = &mut *self;
        if !ctx::with(|s| s.node_alive(this.s.node)) {
            return Poll::Pending;
        }
        let now = Instant::now();
        let mut g = this.s.st.lock().expect("udp");
        if let Some((at, _, _, _, _)) = g.inbox.front() {
            if *at <= now {
                let (_, _, data, from, id) = g.inbox.pop_front().expect("front");
                drop(g);
                let n = data.len().min(this.buf.len());
                this.buf[..n].copy_from_slice(&data[..n]);
                LAST_DELIVERED.with(|l| l.set(id));
                let at_us = ctx::now_us();
                let to = this.s.addr;
                ctx::with(|s| {
                    let seq = s.next_seq();
                    s.count("udp_delivered");
                    s.mix(0x0D9 ^ seq << 12 ^ (n as u64));
                    if let Some(l) = s.net.udp_log.as_mut() {
                        l.push(UdpLogEntry {
                            id,
                            seq,
                            kind: "deliver",
                            from,
                            to,
                            data,
                            at_us,
                        });
                    }
                });
                return Poll::Ready(Ok((n, from)));
            }
            let at = *at;
            g.waker = Some(cx.waker().clone());
            drop(g);
            let mut sl = Box::pin(tokio::time::sleep_until(at));
            match sl.as_mut().poll(cx) {
                Poll::Ready(()) => cx.waker().wake_by_ref(),
                Poll::Pending => this.timer = Some(sl),
            }
            return Poll::Pending;
        }
        g.waker = Some(cx.waker().clone());
        this.timer = None;
        Poll::Pending
    }
}

pub fn enable_udp_log() {
    ctx::with(|s| s.net.udp_log = Some(vec![]));
}

pub fn take_udp_log() -> Vec<UdpLogEntry> {
    ctx::with(|s| s.net.udp_log.as_mut().map(std::mem::take).unwrap_or_default())
}

pub fn add_host(name: &str, ip: IpAddr) {
    ctx::with(|s| {
        s.net.hosts.insert(name.to_owned(), ip);
    });
}

pub fn set_node_ip(node: NodeId, ip: IpAddr) {
    ctx::with(|s| {
        s.net.node_ip.insert(node, ip);
    });
}

/// Harness-side raw connection helpers (same transport the code under test uses)
pub async fn connect_unix(path: impl AsRef<Path>) -> io::Result<Stream> {
    connect_to(Addr::Unix(path.as_ref().to_path_buf())).await
}

pub async fn connect_tcp(addr: StdSocketAddr) -> io::Result<Stream> {
    connect_to(Addr::Tcp(addr)).await
}
