//! Randomness seam: every byte of "OS randomness" the code under test asks for (UUIDs, rand::random)
//! is a function of the run seed and a counter.

use crate::ctx;
use crate::rng::mix64;

pub fn fill(dest: &mut [u8]) {
    let (seed, mut ctr) = ctx::try_with(|s| {
        let c = s.rand_ctr;
        s.rand_ctr += (dest.len() as u64).div_ceil(8).max(1);
        (s.seed, c)
    })
    .unwrap_or((0x0DDB_A11, 0));
    for chunk in dest.chunks_mut(8) {
        let x = mix64(seed ^ 0xA11C_E5ED, ctr).to_le_bytes();
        ctr += 1;
        chunk.copy_from_slice(&x[..chunk.len()]);
    }
}
