//! Stub of `tokio::process`: records what would have been started, never starts anything.

use crate::ctx::{self, ProcRecord};
use std::ffi::OsStr;
use std::future::Future;
use std::io;
use std::os::unix::process::ExitStatusExt;
use std::pin::Pin;
use std::process::{ExitStatus, Stdio};
use std::task::{Context, Poll, Waker};

#[derive(Default)]
pub struct ProcState {
    pub exit: Option<i32>,
    pub terminated: bool,
    pub waker: Option<Waker>,
}

pub struct Command {
    program: String,
    args: Vec<String>,
}

impl Command {
    pub fn new(program: impl AsRef<OsStr>) -> Command {
        Command {
            program: program.as_ref().to_string_lossy().into_owned(),
            args: vec![],
        }
    }
    pub fn arg(&mut self, a: impl AsRef<OsStr>) -> &mut Command {
        self.args.push(a.as_ref().to_string_lossy().into_owned());
        self
    }
    pub fn args<I, S>(&mut self, it: I) -> &mut Command
    where
        I: IntoIterator<Item = S>,
        S: AsRef<OsStr>,
    {
        for a in it {
            self.arg(a);
        }
        self
    }
    pub fn stdout(&mut self, _s: impl Into<Stdio>) -> &mut Command {
        self
    }
    pub fn stderr(&mut self, _s: impl Into<Stdio>) -> &mut Command {
        self
    }
    pub fn stdin(&mut self, _s: impl Into<Stdio>) -> &mut Command {
        self
    }
    pub fn kill_on_drop(&mut self, _v: bool) -> &mut Command {
        self
    }
    pub fn spawn(&mut self) -> io::Result<Child> {
        let id = ctx::with(|s| {
            let id = s.next_proc;
            s.next_proc += 1;
            let seq = s.next_seq();
            let node = s.cur_node;
            s.procs.push(ProcRecord {
                seq,
                node,
                program: self.program.clone(),
                args: self.args.clone(),
                id,
            });
            s.proc_state.insert(id, ProcState::default());
            s.count("proc_spawned");
            s.mix(0x9A0C ^ id << 20);
            s.note(|| format!("proc n{node} spawn {} {:?}", self.program, self.args));
            id
        });
        Ok(Child {
            id,
            stdin: Some(ChildStdin {}),
        })
    }
}

pub struct ChildStdin {}

pub struct Child {
    id: u64,
    pub stdin: Option<ChildStdin>,
}

struct Wait {
    id: u64,
}

impl Future for Wait {
    type Output = io::Result<ExitStatus>;
    fn poll(self: Pin<&mut Self>, cx: &mut Context<'_>) -> Poll<Self::Output> {
        if !ctx::with(|s| s.cur_alive()) {
            return Poll::Pending;
        }
        ctx::with(|s| {
            let st = s.proc_state.entry(self.id).or_default();
            if let Some(code) = st.exit {
                Poll::Ready(Ok(ExitStatus::from_raw((code & 0xff) << 8)))
            } else {
                st.waker = Some(cx.waker().clone());
                Poll::Pending
            }
        })
    }
}

impl Child {
    pub fn id(&self) -> Option<u32> {
        Some(self.id as u32)
    }
    pub fn sim_id(&self) -> u64 {
        self.id
    }
    pub async fn wait(&mut self) -> io::Result<ExitStatus> {
        Wait { id: self.id }.await
    }
    /// shape of `tokio_process_terminate::TerminateExt::terminate_wait`
    pub async fn terminate_wait(&mut self) -> io::Result<ExitStatus> {
        ctx::with(|s| {
            let seq = s.next_seq();
            let st = s.proc_state.entry(self.id).or_default();
            st.terminated = true;
            if st.exit.is_none() {
                st.exit = Some(0);
            }
            s.count("proc_terminated");
            s.mix(0x7E4 ^ seq);
        });
        Wait { id: self.id }.await
    }
    pub async fn kill(&mut self) -> io::Result<()> {
        ctx::with(|s| {
            let st = s.proc_state.entry(self.id).or_default();
            st.terminated = true;
            if st.exit.is_none() {
                st.exit = Some(137);
            }
        });
        Ok(())
    }
    pub fn start_kill(&mut self) -> io::Result<()> {
        ctx::with(|s| {
            let st = s.proc_state.entry(self.id).or_default();
            st.terminated = true;
            if st.exit.is_none() {
                st.exit = Some(137);
            }
        });
        Ok(())
    }
}

/// Harness: make a stub child exit with `code`.
pub fn exit_child(id: u64, code: i32) {
    let w = ctx::with(|s| {
        s.count("proc_exit_injected");
        let st = s.proc_state.entry(id).or_default();
        if st.exit.is_none() {
            st.exit = Some(code);
        }
        st.waker.take()
    });
    if let Some(w) = w {
        w.wake();
    }
}

pub fn spawned() -> Vec<ProcRecord> {
    ctx::with(|s| s.procs.clone())
}
