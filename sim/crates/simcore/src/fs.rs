//! Instrumented file system (API shape of `tokio::fs`): real files on tmpfs, executed
//! synchronously, every operation counted per node and checked against the node's fault plan.
//! Crash model: process crash — operations that returned are durable in order, the one in flight
//! is not executed (a write to a `*.tmp` file may be torn).

use crate::ctx::{self, FsFaultKind, NodeId};
use std::io::{self, Read, Write};
use std::path::{Path, PathBuf};
use std::pin::Pin;
use std::task::{Context, Poll};
use tokio::io::{AsyncRead, AsyncWrite, ReadBuf};

enum Gate {
    /// node is (now) dead: the calling future must pend forever
    Dead,
    /// crash with torn write: write this many per-mille of the data, then die
    Torn(u32),
    Fail(io::Error),
    Go,
}

fn in_sandbox(node: NodeId, path: &Path) -> bool {
    ctx::with(|s| {
        let d = &s.nodes[node as usize].dir;
        if !d.as_os_str().is_empty() && path.starts_with(d) {
            return true;
        }
        // any node directory of this run is acceptable (orchestrator config files etc.)
        s.nodes
            .iter()
            .any(|n| !n.dir.as_os_str().is_empty() && path.starts_with(&n.dir))
    })
}

fn gate(op: &'static str, path: &Path) -> (NodeId, Gate) {
    let node = ctx::current_node();
    let g = ctx::with(|s| {
        if !s.node_alive(node) {
            return Gate::Dead;
        }
        let n = &mut s.nodes[node as usize];
        n.fs_ops += 1;
        let idx = n.fs_ops;
        if n.record_fs_log {
            n.fs_log.push(format!("{idx} {op} {}", path.display()));
        }
        let hit = n.fs_plan.iter().position(|f| f.at_op == idx);
        let r = if let Some(i) = hit {
            let f = n.fs_plan.remove(i);
            match f.kind {
                FsFaultKind::Crash { torn_permille } => {
                    if op == "write" && torn_permille > 0 {
                        Gate::Torn(torn_permille)
                    } else {
                        Gate::Dead
                    }
                }
                FsFaultKind::Error { errno } => Gate::Fail(io::Error::from_raw_os_error(errno)),
            }
        } else {
            Gate::Go
        };
        match &r {
            Gate::Dead | Gate::Torn(_) => {
                s.count("fs_crash_point");
            }
            Gate::Fail(_) => s.count("fs_error_injected"),
            Gate::Go => {}
        }
        s.mix(0xF5 ^ idx << 8 ^ (node as u64) << 48);
        s.note(|| format!("fs n{node} #{idx} {op} {}", path.display()));
        r
    });
    if matches!(g, Gate::Dead) && ctx::with(|s| s.node_alive(node)) {
        ctx::kill_node(node);
    }
    (node, g)
}

async fn pend<T>() -> T {
    std::future::pending::<T>().await
}

pub struct File {
    f: std::fs::File,
    path: PathBuf,
}

impl File {
    pub async fn create(path: impl AsRef<Path>) -> io::Result<File> {
        let path = path.as_ref().to_path_buf();
        let (node, g) = gate("create", &path);
        match g {
            Gate::Dead | Gate::Torn(_) => pend().await,
            Gate::Fail(e) => Err(e),
            Gate::Go => {
                if !in_sandbox(node, &path) {
                    return Err(io::Error::new(
                        io::ErrorKind::PermissionDenied,
                        format!("wbsim: path outside the run directory: {}", path.display()),
                    ));
                }
                let f = std::fs::File::create(&path)?;
                Ok(File { f, path })
            }
        }
    }

    pub async fn open(path: impl AsRef<Path>) -> io::Result<File> {
        let path = path.as_ref().to_path_buf();
        let (_node, g) = gate("open", &path);
        match g {
            Gate::Dead | Gate::Torn(_) => pend().await,
            Gate::Fail(e) => Err(e),
            Gate::Go => {
                let f = std::fs::File::open(&path)?;
                Ok(File { f, path })
            }
        }
    }

    pub async fn metadata(&self) -> io::Result<std::fs::Metadata> {
        self.f.metadata()
    }

    pub async fn sync_all(&self) -> io::Result<()> {
        let (_n, g) = gate("sync", &self.path);
        match g {
            Gate::Dead | Gate::Torn(_) => pend().await,
            Gate::Fail(e) => Err(e),
            Gate::Go => Ok(()),
        }
    }

    pub async fn sync_data(&self) -> io::Result<()> {
        self.sync_all().await
    }
}

impl AsyncRead for File {
    fn poll_read(
        mut self: Pin<&mut Self>,
        _cx: &mut Context<'_>,
        buf: &mut ReadBuf<'_>,
    ) -> Poll<io::Result<()>> {
        let (_n, g) = gate("read", &self.path.clone());
        match g {
            Gate::Dead | Gate::Torn(_) => Poll::Pending,
            Gate::Fail(e) => Poll::Ready(Err(e)),
            Gate::Go => {
                let dst = buf.initialize_unfilled();
                match self.f.read(dst) {
                    Ok(n) => {
                        buf.advance(n);
                        Poll::Ready(Ok(()))
                    }
                    Err(e) => Poll::Ready(Err(e)),
                }
            }
        }
    }
}

impl AsyncWrite for File {
    fn poll_write(
        mut self: Pin<&mut Self>,
        _cx: &mut Context<'_>,
        data: &[u8],
    ) -> Poll<io::Result<usize>> {
        let path = self.path.clone();
        let (node, g) = gate("write", &path);
        match g {
            Gate::Dead => Poll::Pending,
            Gate::Torn(pm) => {
                let is_tmp = path
                    .extension()
                    .map(|e| e == "tmp")
                    .unwrap_or(false);
                if is_tmp {
                    let n = (data.len() as u64 * pm as u64 / 1000) as usize;
                    let _ = self.f.write_all(&data[..n.min(data.len())]);
                    ctx::with(|s| s.count("fs_torn_write"));
                }
                ctx::kill_node(node);
                Poll::Pending
            }
            Gate::Fail(e) => Poll::Ready(Err(e)),
            Gate::Go => match self.f.write(data) {
                Ok(n) => Poll::Ready(Ok(n)),
                Err(e) => Poll::Ready(Err(e)),
            },
        }
    }
    fn poll_flush(mut self: Pin<&mut Self>, _cx: &mut Context<'_>) -> Poll<io::Result<()>> {
        let alive = ctx::with(|s| s.cur_alive());
        if !alive {
            return Poll::Pending;
        }
        Poll::Ready(self.f.flush())
    }
    fn poll_shutdown(self: Pin<&mut Self>, _cx: &mut Context<'_>) -> Poll<io::Result<()>> {
        Poll::Ready(Ok(()))
    }
}

pub async fn read_to_string(path: impl AsRef<Path>) -> io::Result<String> {
    let path = path.as_ref().to_path_buf();
    let (_n, g) = gate("read_to_string", &path);
    match g {
        Gate::Dead | Gate::Torn(_) => pend().await,
        Gate::Fail(e) => Err(e),
        Gate::Go => std::fs::read_to_string(&path),
    }
}

pub async fn read(path: impl AsRef<Path>) -> io::Result<Vec<u8>> {
    let path = path.as_ref().to_path_buf();
    let (_n, g) = gate("read_file", &path);
    match g {
        Gate::Dead | Gate::Torn(_) => pend().await,
        Gate::Fail(e) => Err(e),
        Gate::Go => std::fs::read(&path),
    }
}

pub async fn write(path: impl AsRef<Path>, data: impl AsRef<[u8]>) -> io::Result<()> {
    let path = path.as_ref().to_path_buf();
    let (node, g) = gate("write_file", &path);
    match g {
        Gate::Dead | Gate::Torn(_) => pend().await,
        Gate::Fail(e) => Err(e),
        Gate::Go => {
            if !in_sandbox(node, &path) {
                return Err(io::Error::new(
                    io::ErrorKind::PermissionDenied,
                    "wbsim: path outside the run directory",
                ));
            }
            std::fs::write(&path, data)
        }
    }
}

pub async fn rename(from: impl AsRef<Path>, to: impl AsRef<Path>) -> io::Result<()> {
    let from = from.as_ref().to_path_buf();
    let to = to.as_ref().to_path_buf();
    let (node, g) = gate("rename", &to);
    match g {
        Gate::Dead | Gate::Torn(_) => pend().await,
        Gate::Fail(e) => Err(e),
        Gate::Go => {
            if !in_sandbox(node, &to) {
                return Err(io::Error::new(
                    io::ErrorKind::PermissionDenied,
                    "wbsim: path outside the run directory",
                ));
            }
            std::fs::rename(&from, &to)
        }
    }
}

pub async fn remove_file(path: impl AsRef<Path>) -> io::Result<()> {
    let path = path.as_ref().to_path_buf();
    let node = ctx::current_node();
    if !in_sandbox(node, &path) {
        // e.g. the unix socket path of a server without a data directory: nothing to remove
        if !ctx::with(|s| s.node_alive(node)) {
            return pend().await;
        }
        return Err(io::Error::new(io::ErrorKind::NotFound, "not found"));
    }
    let (_n, g) = gate("remove", &path);
    match g {
        Gate::Dead | Gate::Torn(_) => pend().await,
        Gate::Fail(e) => Err(e),
        Gate::Go => std::fs::remove_file(&path),
    }
}

pub async fn create_dir_all(path: impl AsRef<Path>) -> io::Result<()> {
    let path = path.as_ref().to_path_buf();
    let node = ctx::current_node();
    if !in_sandbox(node, &path) {
        if !ctx::with(|s| s.node_alive(node)) {
            return pend().await;
        }
        return Ok(());
    }
    let (_n, g) = gate("mkdir", &path);
    match g {
        Gate::Dead | Gate::Torn(_) => pend().await,
        Gate::Fail(e) => Err(e),
        Gate::Go => std::fs::create_dir_all(&path),
    }
}

pub async fn metadata(path: impl AsRef<Path>) -> io::Result<std::fs::Metadata> {
    std::fs::metadata(path)
}

pub async fn try_exists(path: impl AsRef<Path>) -> io::Result<bool> {
    Ok(path.as_ref().exists())
}
