//! wbsim core: the seams of the deterministic simulation (see /verif/DESIGN.md section 2).
pub mod chaos;
pub mod ctx;
pub mod fs;
pub mod net;
pub mod process;
pub mod rand_hooks;
pub mod rng;

pub use ctx::{Knobs, NodeId, HARNESS};
pub use rng::Rng;
