//! Per-thread simulation context: one `Sim` per run, owned by the worker thread.
//! Every seam (scheduler wrapper, network, file system, process stub, randomness)
//! draws its decisions from `Sim::tape` and records what fired in `Sim::counters`.

use crate::rng::Rng;
use std::cell::RefCell;
use std::collections::BTreeMap;
use std::path::PathBuf;

pub type NodeId = u32;
pub const HARNESS: NodeId = 0;

#[derive(Clone, Debug)]
pub struct Knobs {
    /// probability (per 1000) that a task poll is deferred (task re-queued at the back)
    pub p_defer: u32,
    /// probability (per 100000) that a task poll is replaced by a simulated stall
    pub p_stall: u32,
    pub max_stall_us: u64,
    pub lat_min_us: u64,
    pub lat_max_us: u64,
    /// probability (per 1000) that a single stream read/write is fragmented
    pub p_frag: u32,
    /// max fragment size when fragmenting
    pub frag_max: usize,
    /// probability (per 1000) that a stream read/write first returns Pending
    pub p_io_pending: u32,
    pub pipe_capacity: usize,
    /// UDP: per 1000
    pub p_udp_drop: u32,
    pub p_udp_dup: u32,
    pub udp_lat_max_us: u64,
}

impl Knobs {
    pub fn calm() -> Knobs {
        Knobs {
            p_defer: 0,
            p_stall: 0,
            max_stall_us: 0,
            lat_min_us: 0,
            lat_max_us: 0,
            p_frag: 0,
            frag_max: 1,
            p_io_pending: 0,
            pipe_capacity: 1 << 16,
            p_udp_drop: 0,
            p_udp_dup: 0,
            udp_lat_max_us: 0,
        }
    }
}

#[derive(Clone, Debug, PartialEq)]
pub enum FsFaultKind {
    /// the node dies right before this file-system operation (a torn prefix is written first if the
    /// operation is a write to a `*.tmp` file and `torn` > 0)
    Crash { torn_permille: u32 },
    /// the operation fails with this errno
    Error { errno: i32 },
}

#[derive(Clone, Debug, PartialEq)]
pub struct FsFault {
    pub at_op: u64,
    pub kind: FsFaultKind,
}

pub struct Node {
    pub name: String,
    pub alive: bool,
    pub dir: PathBuf,
    pub fs_ops: u64,
    pub fs_plan: Vec<FsFault>,
    pub fs_log: Vec<String>,
    pub record_fs_log: bool,
}

#[derive(Clone, Debug)]
pub struct ProcRecord {
    pub seq: u64,
    pub node: NodeId,
    pub program: String,
    pub args: Vec<String>,
    pub id: u64,
}

pub struct Sim {
    pub seed: u64,
    pub tape: Rng,
    pub knobs: Knobs,
    pub cur_node: NodeId,
    pub nodes: Vec<Node>,
    pub next_task: u64,
    pub trace: u64,
    pub polls: u64,
    pub seq: u64,
    pub counters: BTreeMap<&'static str, u64>,
    pub panics: Vec<(NodeId, String)>,
    pub net: crate::net::NetState,
    pub procs: Vec<ProcRecord>,
    pub proc_state: BTreeMap<u64, crate::process::ProcState>,
    pub next_proc: u64,
    pub log: Option<Vec<String>>,
    pub rand_ctr: u64,
}

thread_local! {
    static SIM: RefCell<Option<Sim>> = const { RefCell::new(None) };
}

pub fn install(seed: u64, knobs: Knobs, verbose: bool) {
    foldhash::sim_reset(seed ^ 0xF01D);
    let sim = Sim {
        seed,
        tape: Rng::new(seed ^ 0x7A9E_5EED),
        knobs,
        cur_node: HARNESS,
        nodes: vec![Node {
            name: "harness".into(),
            alive: true,
            dir: PathBuf::new(),
            fs_ops: 0,
            fs_plan: vec![],
            fs_log: vec![],
            record_fs_log: false,
        }],
        next_task: 0,
        trace: 0xcbf2_9ce4_8422_2325,
        polls: 0,
        seq: 0,
        counters: BTreeMap::new(),
        panics: vec![],
        net: crate::net::NetState::default(),
        procs: vec![],
        proc_state: BTreeMap::new(),
        next_proc: 1,
        log: if verbose { Some(vec![]) } else { None },
        rand_ctr: 0,
    };
    SIM.with(|s| *s.borrow_mut() = Some(sim));
}

pub fn uninstall() -> Option<Sim> {
    SIM.with(|s| s.borrow_mut().take())
}

pub fn installed() -> bool {
    SIM.with(|s| s.borrow().is_some())
}

/// Access the simulation context. Never call user code inside `f`.
pub fn with<R>(f: impl FnOnce(&mut Sim) -> R) -> R {
    SIM.with(|s| {
        let mut g = s.borrow_mut();
        let sim = g.as_mut().expect("simcore: no simulation installed on this thread");
        f(sim)
    })
}

pub fn try_with<R>(f: impl FnOnce(&mut Sim) -> R) -> Option<R> {
    SIM.with(|s| {
        let mut g = s.try_borrow_mut().ok()?;
        g.as_mut().map(f)
    })
}

impl Sim {
    #[inline]
    pub fn mix(&mut self, x: u64) {
        self.trace = (self.trace ^ x).wrapping_mul(0x0000_0100_0000_01B3);
        self.trace ^= self.trace >> 29;
    }
    pub fn count(&mut self, what: &'static str) {
        *self.counters.entry(what).or_insert(0) += 1;
    }
    pub fn count_n(&mut self, what: &'static str, n: u64) {
        *self.counters.entry(what).or_insert(0) += n;
    }
    pub fn next_seq(&mut self) -> u64 {
        self.seq += 1;
        self.seq
    }
    pub fn note(&mut self, f: impl FnOnce() -> String) {
        if let Some(l) = self.log.as_mut() {
            let s = f();
            l.push(s);
        }
    }
    pub fn node_alive(&self, n: NodeId) -> bool {
        self.nodes.get(n as usize).map(|n| n.alive).unwrap_or(false)
    }
    pub fn cur_alive(&self) -> bool {
        self.node_alive(self.cur_node)
    }
}

/// Register a new simulated node (a server, a client-library instance, an orchestrator).
pub fn add_node(name: &str, dir: PathBuf) -> NodeId {
    with(|s| {
        s.nodes.push(Node {
            name: name.to_owned(),
            alive: true,
            dir,
            fs_ops: 0,
            fs_plan: vec![],
            fs_log: vec![],
            record_fs_log: false,
        });
        (s.nodes.len() - 1) as NodeId
    })
}

/// `kill -9`: the node's tasks are never polled again, its sockets are reset, its I/O is a no-op.
pub fn kill_node(n: NodeId) {
    with(|s| {
        if let Some(node) = s.nodes.get_mut(n as usize) {
            if node.alive {
                node.alive = false;
                s.count("node_kill");
                let seq = s.next_seq();
                s.mix(0xDEAD ^ (n as u64) << 32 ^ seq);
                s.note(|| format!("kill node {n}"));
            }
        }
    });
    crate::net::reset_node_endpoints(n);
}

pub fn current_node() -> NodeId {
    with(|s| s.cur_node)
}

pub fn seq() -> u64 {
    with(|s| s.next_seq())
}

pub fn count(what: &'static str) {
    with(|s| s.count(what));
}

pub fn now_us() -> u64 {
    // simulated time since the runtime started (paused clock)
    START.with(|st| {
        let st = st.get();
        match st {
            Some(t0) => tokio::time::Instant::now().duration_since(t0).as_micros() as u64,
            None => 0,
        }
    })
}

thread_local! {
    static START: std::cell::Cell<Option<tokio::time::Instant>> = const { std::cell::Cell::new(None) };
}

pub fn mark_start() {
    START.with(|s| s.set(Some(tokio::time::Instant::now())));
}
