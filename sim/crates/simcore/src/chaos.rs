//! Seeded random scheduler built on the single primitive tokio's current-thread runtime offers:
//! a task that re-wakes itself and returns `Pending` goes to the back of the FIFO run queue.
//! Every task spawned by the code under test goes through `spawn` below.

use crate::ctx::{self, NodeId};
use std::future::Future;
use std::pin::Pin;
use std::task::{Context, Poll};
use std::time::Duration;
use tokio::task::JoinHandle;

pub struct Chaos<F: Future> {
    inner: Pin<Box<F>>,
    node: NodeId,
    id: u64,
    stall: Option<Pin<Box<tokio::time::Sleep>>>,
}

enum Decision {
    Dead,
    Run,
    Defer,
    Stall(u64),
}

impl<F: Future> Future for Chaos<F> {
    type Output = F::Output;
    fn poll(mut self: Pin<&mut Self>, cx: &mut Context<'_>) -> Poll<F::Output> {
        let this = &mut *self;
        if let Some(st) = this.stall.as_mut() {
            let alive = ctx::with(|s| s.node_alive(this.node));
            if !alive {
                return Poll::Pending;
            }
            match st.as_mut().poll(cx) {
                Poll::Pending => return Poll::Pending,
                Poll::Ready(()) => this.stall = None,
            }
        }
        let node = this.node;
        let id = this.id;
        let d = ctx::with(|s| {
            if !s.node_alive(node) {
                return Decision::Dead;
            }
            s.polls += 1;
            let k = &s.knobs;
            let (p_defer, p_stall, max_stall) = (k.p_defer, k.p_stall, k.max_stall_us);
            let d = if p_defer > 0 && s.tape.chance(p_defer, 1000) {
                s.count("sched_defer");
                Decision::Defer
            } else if p_stall > 0 && max_stall > 0 && s.tape.chance(p_stall, 100_000) {
                s.count("sched_stall");
                Decision::Stall(s.tape.range(1, max_stall))
            } else {
                Decision::Run
            };
            let code = match d {
                Decision::Run => 1,
                Decision::Defer => 2,
                Decision::Stall(_) => 3,
                Decision::Dead => 4,
            };
            s.mix(id.wrapping_mul(0x9E37_79B9) ^ code);
            s.note(|| format!("poll t{id} n{node} d{code}"));
            d
        });
        match d {
            Decision::Dead => Poll::Pending,
            Decision::Defer => {
                cx.waker().wake_by_ref();
                Poll::Pending
            }
            Decision::Stall(us) => {
                let mut sl = Box::pin(tokio::time::sleep(Duration::from_micros(us)));
                match sl.as_mut().poll(cx) {
                    Poll::Pending => {
                        this.stall = Some(sl);
                        Poll::Pending
                    }
                    Poll::Ready(()) => {
                        cx.waker().wake_by_ref();
                        Poll::Pending
                    }
                }
            }
            Decision::Run => {
                let prev = ctx::with(|s| std::mem::replace(&mut s.cur_node, node));
                let r = this.inner.as_mut().poll(cx);
                ctx::with(|s| s.cur_node = prev);
                r
            }
        }
    }
}

fn wrap<F: Future>(node: NodeId, fut: F) -> Chaos<F> {
    let id = ctx::with(|s| {
        s.next_task += 1;
        s.next_task
    });
    Chaos {
        inner: Box::pin(fut),
        node,
        id,
        stall: None,
    }
}

/// Replacement for `tokio::spawn`: the task inherits the node of the task that spawns it.
#[track_caller]
pub fn spawn<F>(fut: F) -> JoinHandle<F::Output>
where
    F: Future + Send + 'static,
    F::Output: Send + 'static,
{
    let node = ctx::current_node();
    tokio::spawn(wrap(node, fut))
}

/// Harness entry: run `fut` as a task of node `node`.
pub fn spawn_on<F>(node: NodeId, fut: F) -> JoinHandle<F::Output>
where
    F: Future + Send + 'static,
    F::Output: Send + 'static,
{
    tokio::spawn(wrap(node, fut))
}

/// Harness helper: spawn a harness task that is *not* subject to deferral/stall (observer, driver)
pub fn spawn_plain<F>(fut: F) -> JoinHandle<F::Output>
where
    F: Future + Send + 'static,
    F::Output: Send + 'static,
{
    tokio::spawn(fut)
}
