//! Small deterministic PRNG (splitmix64 seeding a xoshiro256**).

#[derive(Clone, Debug)]
pub struct Rng {
    s: [u64; 4],
}

fn splitmix(x: &mut u64) -> u64 {
    *x = x.wrapping_add(0x9E37_79B9_7F4A_7C15);
    let mut z = *x;
    z = (z ^ (z >> 30)).wrapping_mul(0xBF58_476D_1CE4_E5B9);
    z = (z ^ (z >> 27)).wrapping_mul(0x94D0_49BB_1331_11EB);
    z ^ (z >> 31)
}

impl Rng {
    pub fn new(seed: u64) -> Rng {
        let mut x = seed;
        Rng {
            s: [
                splitmix(&mut x),
                splitmix(&mut x),
                splitmix(&mut x),
                splitmix(&mut x),
            ],
        }
    }
    pub fn next_u64(&mut self) -> u64 {
        let r = self.s[1].wrapping_mul(5).rotate_left(7).wrapping_mul(9);
        let t = self.s[1] << 17;
        self.s[2] ^= self.s[0];
        self.s[3] ^= self.s[1];
        self.s[1] ^= self.s[2];
        self.s[0] ^= self.s[3];
        self.s[2] ^= t;
        self.s[3] = self.s[3].rotate_left(45);
        r
    }
    /// uniform in 0..n (n > 0)
    pub fn below(&mut self, n: u64) -> u64 {
        if n <= 1 {
            return 0;
        }
        self.next_u64() % n
    }
    pub fn range(&mut self, lo: u64, hi_incl: u64) -> u64 {
        if hi_incl <= lo {
            return lo;
        }
        lo + self.below(hi_incl - lo + 1)
    }
    pub fn chance(&mut self, num: u32, den: u32) -> bool {
        if num == 0 {
            return false;
        }
        (self.next_u64() % den as u64) < num as u64
    }
    pub fn pick<'a, T>(&mut self, xs: &'a [T]) -> &'a T {
        &xs[self.below(xs.len() as u64) as usize]
    }
    pub fn fork(&mut self) -> Rng {
        Rng::new(self.next_u64())
    }
}

pub fn mix64(a: u64, b: u64) -> u64 {
    let mut x = a ^ b.wrapping_mul(0x9E37_79B9_7F4A_7C15);
    splitmix(&mut x)
}
