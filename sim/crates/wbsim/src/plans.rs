//! Registry: which scenario serves which property, plan generation, execution, shrinking.

use crate::harness::{self, Outcome, RunStats};
use crate::scen_client::{self, ClientPlan};
use crate::scen_disk::{self, DiskPlan};
use crate::scen_frame::{self, FramePlan};
use crate::scen_orch::{self, OrchPlan};
use crate::scen_wire::{self, WirePlan};
use serde::{Deserialize, Serialize};
use simcore::Rng;

#[derive(Clone, Debug, Serialize, Deserialize, PartialEq)]
#[serde(tag = "scenario")]
pub enum Plan {
    Wire(WirePlan),
    Disk(DiskPlan),
    ClientLib(ClientPlan),
    Frame(FramePlan),
    Orch(OrchPlan),
}

pub const WIRE_PROPS: &[&str] = &[
    "C01", "C02", "C03", "C05", "C06", "C07", "C08", "C11", "C12", "C13", "C15", "C16", "C17",
];
pub const DISK_PROPS: &[&str] = &["C09", "C10", "C18"];

pub fn properties() -> Vec<&'static str> {
    let mut v: Vec<&'static str> = WIRE_PROPS.to_vec();
    v.extend(DISK_PROPS);
    v.push("C20");
    v.push("C14");
    v.push("C19");
    v.sort();
    v
}

pub fn gen_plan(property: &str, rng: &mut Rng, thorough: bool) -> Option<Plan> {
    if property == "C02" && rng.chance(1, 4) {
        // the client library's update()/swap() retry loop is part of C02's mechanism
        return Some(Plan::ClientLib(scen_client::gen_plan(rng, "C02", thorough)));
    }
    if WIRE_PROPS.contains(&property) {
        return Some(Plan::Wire(scen_wire::gen_plan(rng, property, thorough)));
    }
    if property == "C19" {
        return Some(Plan::Orch(scen_orch::gen_plan(rng, thorough)));
    }
    if property == "C14" {
        return Some(Plan::Frame(scen_frame::gen_plan(rng, thorough)));
    }
    if property == "C20" {
        return Some(Plan::ClientLib(scen_client::gen_plan(rng, "C20", thorough)));
    }
    if DISK_PROPS.contains(&property) {
        return Some(Plan::Disk(scen_disk::gen_plan(rng, property, thorough)));
    }
    None
}

/// Every run gets a fresh OS thread: std's `RandomState` keeps a per-thread counter that would
/// otherwise make the n-th run of a process differ from the first (hash iteration order).
pub fn run_plan(plan: &Plan, seed: u64, verbose: bool) -> (Outcome, RunStats) {
    let plan = plan.clone();
    let h = std::thread::Builder::new()
        .name("wbsim-run".into())
        .stack_size(32 << 20)
        .spawn(move || run_plan_here(&plan, seed, verbose))
        .expect("spawn run thread");
    match h.join() {
        Ok(r) => r,
        Err(_) => {
            let mut o = Outcome::default();
            o.violate("HARNESS", "harness-panic", "the harness itself panicked", String::new());
            (o, RunStats::default())
        }
    }
}

fn run_plan_here(plan: &Plan, seed: u64, verbose: bool) -> (Outcome, RunStats) {
    match plan {
        Plan::Wire(p) => {
            let p2 = p.clone();
            harness::run_sim(seed, &p.knobs, verbose, move || scen_wire::run(p2))
        }
        Plan::Disk(p) => scen_disk::run(p, seed, verbose),
        Plan::ClientLib(p) => {
            let p2 = p.clone();
            harness::run_sim(seed, &p.knobs, verbose, move || scen_client::run(p2))
        }
        Plan::Frame(p) => {
            let p2 = p.clone();
            harness::run_sim(seed, &p.knobs, verbose, move || scen_frame::run(p2))
        }
        Plan::Orch(p) => {
            let p2 = p.clone();
            harness::run_sim(seed, &p.knobs, verbose, move || scen_orch::run(p2))
        }
    }
}

pub fn shrink(plan: &Plan) -> Vec<Plan> {
    match plan {
        Plan::Wire(p) => scen_wire::shrink(p).into_iter().map(Plan::Wire).collect(),
        Plan::Disk(p) => scen_disk::shrink(p).into_iter().map(Plan::Disk).collect(),
        Plan::ClientLib(p) => scen_client::shrink(p).into_iter().map(Plan::ClientLib).collect(),
        Plan::Frame(p) => scen_frame::shrink(p).into_iter().map(Plan::Frame).collect(),
        Plan::Orch(p) => scen_orch::shrink(p).into_iter().map(Plan::Orch).collect(),
    }
}

/// quick/thorough run counts per property (≈ 60–90 s / ≈ 10–15 min on 16 cores)
pub fn budget(property: &str, thorough: bool) -> (u64, u64) {
    // (runs, wall-clock cap in seconds)
    let quick = match property {
        "C10" => 400,
        "C20" => 6_000,
        "C14" => 12_000,
        "C19" => 6_000,
        "C11" => 5_000,
        "C12" => 3_000,
        "C09" => 6_000,
        "C18" => 2_500,
        "C06" | "C02" | "C13" | "C08" | "C17" => 12_000,
        _ => 10_000,
    };
    if thorough {
        (quick * 12, 900)
    } else {
        (quick, 100)
    }
}

pub fn level(property: &str) -> &'static str {
    match property {
        "C10" => "fault_enumeration",
        _ => "exploration",
    }
}

pub fn rule_text(property: &str) -> &'static str {
    match property {
        "C01" => "seeded wire-level runs (1-5 clients, v0/v1, pipelined or not) against a real in-process server; a run is non-trivial if >=2 clients issued >=6 answered requests with >=3 accepted changes, or a rejected write is followed by reads; distinct = distinct scheduler/IO trace hashes among non-trivial runs",
        "C02" => "2-5 clients running cget->cset cycles and disturbers on 1-2 shared keys; non-trivial: >=2 clients and >=3 accepted changes; distinct = distinct trace hashes",
        "C03" => "writers plus subscribe/psubscribe/unsubscribe at random positions; non-trivial: >=1 subscription with events and >=3 accepted changes; distinct = distinct trace hashes",
        "C05" => "writers (incl. rejected cset) plus ls/pls/subscribeLs; non-trivial as C01; distinct = distinct trace hashes",
        "C06" => "2-5 v1 sessions issuing lock/acquireLock/releaseLock/disconnect on 1-3 keys; non-trivial: >=3 answered requests; distinct = distinct trace hashes",
        "C07" => "sessions registering grave goods / last wills and ending in every way; non-trivial: >=1 session end observed with >=2 accepted changes; distinct = distinct trace hashes",
        "C08" => "adversarial requests reaching $SYS literally or by wildcard, sentinels planted by the internal client; non-trivial: >=3 answered requests; distinct = distinct trace hashes",
        "C13" => "pipelined sequences over all message kinds with valid and invalid arguments; non-trivial: >=5 answered requests incl. >=1 error; distinct = distinct trace hashes",
        "C17" => "adversarial sessions (garbage, hostile orders) next to a well-behaved witness session, debug assertions on; non-trivial: >=3 answered requests; distinct = distinct trace hashes",
        "C11" => "wire workload (writes, deletes, imports, sessions with grave goods / last wills opening and ending) on a real leader; 1-3 real followers join over the simulated TCP network at random points, some are killed and rejoin, some are partitioned for a while; after a marker write is visible on a follower its user keys, versions and registrations must equal the leader's; non-trivial: >=3 accepted changes; distinct = distinct trace hashes",
        "C12" => "as C11, then the leader is killed, the follower is stopped (shutdown path) or killed and a new instance is started on its directory with the role flags the orchestrator passes; non-trivial: the old leader held registrations; distinct = distinct trace hashes",
        "C20" => "1-3 real client-library instances (real connect, command loop, callbacks, SendBuffer, update) on the simulated Unix socket, 1-8 tasks per instance on cloned handles, each in its own key namespace with unique values, shared counter through update(), shared spub stream, set_later/publish_later bursts, all four unsubscribe variants; non-trivial: an instance with >=2 tasks and >=6 calls; distinct = distinct trace hashes",
        "C15" => "server requiring authorization; sessions with missing, forged, expired and valid HS256 tokens whose read/write/delete grants are pattern sets; mixed request sequences inside and outside the grant; containment of a request pattern in the grants decided over a finite universe of keys; non-trivial: >=4 answered requests incl. >=1 error; distinct = distinct trace hashes",
        "C16" => "one session holding a plain and an aggregated psubscribe (1/10/100/1000 ms) on the same pattern, writers producing bursts, repeated keys, set/delete alternation, idle gaps around the interval; non-trivial: a subscription with >=3 messages; distinct = distinct trace hashes",
        "C14" => "generated client and server messages (all variants, boundary ids/versions, nested/odd JSON, unicode and empty keys, 1-3 KiB strings) written by the real write_line_and_flush through a simulated stream with 1-byte fragments, Pending, tiny pipe capacities, reader stalls that trigger the send timeout and a reader cancelled and re-polled inside select!; read back by the real receive_msg; non-trivial: >=2 messages with fragmentation on; distinct = distinct trace hashes",
        "C19" => "clusters of 1-7 configured nodes, 1-3 of them real orchestrator instances, the others scripted peers (silent, voting, voting twice, voting late, voting under an unknown id, competing with various priorities, heartbeating as member or intruder, sending unsolicited votes) on a simulated UDP network with loss, duplication, reordering, delay and partitions; configured quorum absent or set; safety oracle over the datagram log and the process log; non-trivial: >=2 nodes and >=1 server process started; distinct = distinct trace hashes",
        "C09" => "fault-free persistence cycles (periodic flush then kill, or clean shutdown) and directories laid out by the harness in schema v1/v2/v3 in both toggle states, damaged primary slots; non-trivial: the snapshot holds a CAS entry or a registration; distinct = distinct trace hashes",
        "C10" => "histories of 2-5 flushes with distinct states; for one flush of each history EVERY file-system operation (plus torn variants of *.tmp writes) is used as crash point, one simulated run each, followed by a restart; evaluations counts crash-point runs; non-trivial: crash landed inside a flush that had a completed predecessor; distinct = distinct trace hashes of histories",
        "C18" => "ReDB backend: 1-25 operations, node killed between two scheduler turns of the writer task (or stopped cleanly), database file copied, new instance; non-trivial: >=3 prefixes; distinct = distinct trace hashes",
        _ => "seeded runs; distinct = distinct trace hashes among non-trivial runs",
    }
}
