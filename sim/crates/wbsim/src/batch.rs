//! Batches of simulated runs: master/worker processes, known findings, shrinking, replay files,
//! evidence.

use crate::harness::{Outcome, RunStats, Violation};
use crate::plans::{self, Plan};
use serde::{Deserialize, Serialize};
use serde_json::{Value, json};
use simcore::Rng;
use simcore::rng::mix64;
use std::collections::{BTreeMap, BTreeSet};
use std::io::Write;
use std::path::PathBuf;
use std::time::Instant;

fn verif_dir() -> PathBuf {
    if let Ok(d) = std::env::var("WBSIM_VERIF_DIR") {
        return PathBuf::from(d);
    }
    // binary lives in <verif>/sim/target/debug/wbsim
    let exe = std::env::current_exe().unwrap_or_default();
    let mut p = exe.clone();
    for _ in 0..4 {
        p.pop();
    }
    if p.join("properties.jsonl").exists() {
        p
    } else {
        PathBuf::from("/verif")
    }
}

#[derive(Clone, Debug, Serialize, Deserialize)]
pub struct Finding {
    pub status: String,
    pub property: String,
    #[serde(default)]
    pub signature: String,
    #[serde(default)]
    pub what: String,
    #[serde(default)]
    pub commit: Option<String>,
    #[serde(default)]
    pub id: Option<String>,
}

#[derive(Clone, Debug, Serialize, Deserialize, Default)]
pub struct Findings {
    pub findings: Vec<Finding>,
}

pub fn load_findings() -> Findings {
    let p = verif_dir().join("known_findings.json");
    match std::fs::read_to_string(&p) {
        Ok(s) => serde_json::from_str(&s).unwrap_or_else(|e| {
            eprintln!("wbsim: cannot parse {}: {e}", p.display());
            std::process::exit(2);
        }),
        Err(_) => Findings::default(),
    }
}

impl Findings {
    pub fn matches(&self, v: &Violation) -> Option<&Finding> {
        self.findings
            .iter()
            .find(|f| f.status == "open" && f.property == v.property && f.signature == v.signature)
    }
}

#[derive(Clone, Debug, Serialize, Deserialize)]
pub struct Found {
    pub run_seed: u64,
    pub index: u64,
    pub violation: Violation,
    pub plan: Plan,
}

#[derive(Clone, Debug, Default, Serialize, Deserialize)]
pub struct WorkerResult {
    pub evaluations: u64,
    pub nontrivial: u64,
    pub traces_nontrivial: Vec<u64>,
    pub traces_all_distinct: u64,
    pub counters: BTreeMap<String, u64>,
    pub probes: BTreeMap<String, u64>,
    pub sim_us: u64,
    pub polls: u64,
    pub model_states: u64,
    pub inconclusive: u64,
    pub samples: Vec<Value>,
    pub found: Vec<Found>,
    pub known_hits: BTreeMap<String, u64>,
    pub aborted_known_server_death: u64,
    pub determinism_checked: u64,
    pub determinism_mismatch: Option<String>,
    pub wall_s: f64,
    pub survived_panics: Vec<String>,
}

/// violations that count for the property under check: its own, and any server death
fn relevant<'a>(property: &str, out: &'a Outcome) -> Vec<&'a Violation> {
    // development aid: WBSIM_ALL_PROPS=1 reports what the oracles of the *other* properties have
    // to say about this property's workload as well (latent model imprecision shows up there)
    let all = std::env::var("WBSIM_ALL_PROPS").is_ok();
    out.violations
        .iter()
        .filter(|v| all || v.property == property || v.rule == "server-death")
        .collect()
}

fn digest(out: &Outcome, st: &RunStats) -> String {
    let v: Vec<String> = out
        .violations
        .iter()
        .map(|v| format!("{}|{}|{}", v.property, v.rule, v.signature))
        .collect();
    format!(
        "trace={:016x} polls={} sim_us={} viol={:?} probes={:?} incon={} nontrivial={}",
        st.trace, st.polls, st.sim_us, v, out.probes, out.inconclusive, out.nontrivial
    )
}

pub fn run_seed_of(batch_seed: u64, property: &str, index: u64) -> u64 {
    let mut h = 0xcbf2_9ce4_8422_2325u64;
    for b in property.bytes() {
        h = (h ^ b as u64).wrapping_mul(0x100_0000_01b3);
    }
    mix64(mix64(batch_seed, h), index)
}

pub fn cmd_worker(args: &[String]) -> u8 {
    // worker <property> <tier> <batch_seed> <k> <K> <runs> <cap_s>
    if args.len() < 7 {
        eprintln!("worker: bad arguments");
        return 2;
    }
    let property = args[0].clone();
    let thorough = args[1] == "thorough";
    let batch_seed: u64 = args[2].parse().unwrap_or(1);
    let k: u64 = args[3].parse().unwrap_or(0);
    let kk: u64 = args[4].parse().unwrap_or(1);
    let runs: u64 = args[5].parse().unwrap_or(1);
    let cap_s: u64 = args[6].parse().unwrap_or(60);
    let findings = load_findings();
    let t0 = Instant::now();
    let mut res = WorkerResult::default();
    let mut all_traces: BTreeSet<u64> = BTreeSet::new();
    let mut nt_traces: BTreeSet<u64> = BTreeSet::new();
    let mut seen_sigs: BTreeSet<String> = BTreeSet::new();
    let mut i = k;
    while i < runs {
        if t0.elapsed().as_secs() >= cap_s {
            break;
        }
        let run_seed = run_seed_of(batch_seed, &property, i);
        let mut rng = Rng::new(run_seed);
        let Some(plan) = plans::gen_plan(&property, &mut rng, thorough) else {
            eprintln!("worker: no scenario for {property}");
            return 2;
        };
        let (out, st) = plans::run_plan(&plan, run_seed, false);
        res.evaluations += out.probes.get("sub_runs").cloned().unwrap_or(1);
        res.sim_us += st.sim_us;
        res.polls += st.polls;
        res.model_states += out.model_states;
        all_traces.insert(st.trace);
        if out.nontrivial {
            res.nontrivial += 1;
            nt_traces.insert(st.trace);
        }
        if out.inconclusive {
            res.inconclusive += 1;
        }
        for (c, n) in &st.counters {
            *res.counters.entry(c.clone()).or_insert(0) += n;
        }
        for (c, n) in &out.probes {
            *res.probes.entry(c.clone()).or_insert(0) += n;
        }
        if res.samples.len() < 2 {
            if let Some(s) = &out.sample {
                res.samples.push(json!({"run_seed": run_seed, "sample": s}));
            } else if res.samples.is_empty() && out.nontrivial {
                res.samples.push(json!({"run_seed": run_seed, "plan": serde_json::to_value(&plan).unwrap_or_default()}));
            }
        }
        for (n, p) in &st.panics {
            if res.survived_panics.len() < 5 {
                res.survived_panics.push(format!("node {n}: {}", p.lines().next().unwrap_or("")));
            }
        }
        // determinism self-check on a sample of this worker's own seeds
        if (i / kk) % 64 == 0 || (i / kk) < 2 {
            let (out2, st2) = plans::run_plan(&plan, run_seed, false);
            res.determinism_checked += 1;
            let (d1, d2) = (digest(&out, &st), digest(&out2, &st2));
            if d1 != d2 && res.determinism_mismatch.is_none() {
                res.determinism_mismatch = Some(format!("run_seed {run_seed}: {d1} != {d2}"));
            }
        }
        for v in relevant(&property, &out) {
            if let Some(f) = findings.matches(v) {
                *res.known_hits.entry(format!("{}|{}", f.property, f.signature)).or_insert(0) += 1;
                if v.rule == "server-death" && property != "C17" {
                    res.aborted_known_server_death += 1;
                }
                continue;
            }
            let sig = format!("{}|{}", v.property, v.signature);
            if seen_sigs.insert(sig) && res.found.len() < 4 {
                res.found.push(Found {
                    run_seed,
                    index: i,
                    violation: v.clone(),
                    plan: plan.clone(),
                });
            }
        }
        i += kk;
    }
    res.traces_nontrivial = nt_traces.into_iter().collect();
    res.traces_all_distinct = all_traces.len() as u64;
    res.wall_s = t0.elapsed().as_secs_f64();
    let s = serde_json::to_string(&res).unwrap_or_default();
    let mut o = std::io::stdout().lock();
    let _ = writeln!(o, "WORKER-RESULT {s}");
    0
}

fn has_same(property: &str, out: &Outcome, want: &Violation) -> bool {
    relevant(property, out)
        .iter()
        .any(|v| v.property == want.property && v.signature == want.signature)
}

/// shrink while the same violation class (property + signature) persists
pub fn minimise(property: &str, found: &Found, max_runs: usize) -> (Plan, usize) {
    let mut cur = found.plan.clone();
    let mut runs = 0;
    let mut progress = true;
    while progress && runs < max_runs {
        progress = false;
        for cand in plans::shrink(&cur) {
            if runs >= max_runs {
                break;
            }
            runs += 1;
            let (out, _) = plans::run_plan(&cand, found.run_seed, false);
            if has_same(property, &out, &found.violation) {
                cur = cand;
                progress = true;
                break;
            }
        }
    }
    (cur, runs)
}

#[derive(Serialize, Deserialize)]
pub struct ReplayFile {
    pub property: String,
    pub run_seed: u64,
    pub expect: Violation,
    pub plan: Plan,
    #[serde(default)]
    pub note: String,
}

pub fn cmd_replay(args: &[String]) -> u8 {
    let Some(path) = args.first() else {
        eprintln!("replay: missing file");
        return 2;
    };
    let verbose = args.iter().any(|a| a == "-v");
    let s = match std::fs::read_to_string(path) {
        Ok(s) => s,
        Err(e) => {
            eprintln!("replay: {e}");
            return 2;
        }
    };
    let rf: ReplayFile = match serde_json::from_str(&s) {
        Ok(r) => r,
        Err(e) => {
            eprintln!("replay: {e}");
            return 2;
        }
    };
    let (out, st) = plans::run_plan(&rf.plan, rf.run_seed, verbose);
    if verbose {
        for l in &st.log {
            println!("  {l}");
        }
        if let Some(s) = &out.sample {
            println!("{}", serde_json::to_string_pretty(s).unwrap_or_default());
        }
    }
    println!("trace={:016x} polls={} simulated_us={}", st.trace, st.polls, st.sim_us);
    for v in &out.violations {
        println!("  violation {} [{}] {} :: {}", v.property, v.rule, v.signature, v.detail);
    }
    if has_same(&rf.property, &out, &rf.expect) {
        println!("REPRODUCED property={} signature={}", rf.expect.property, rf.expect.signature);
        1
    } else {
        println!("NOT-REPRODUCED");
        0
    }
}

pub fn cmd_one(args: &[String]) -> u8 {
    // one <property> <run_seed> [thorough]
    let property = args.first().cloned().unwrap_or_default();
    let run_seed: u64 = args.get(1).and_then(|s| s.parse().ok()).unwrap_or(1);
    let thorough = args.iter().any(|a| a == "thorough");
    let mut rng = Rng::new(run_seed);
    let Some(plan) = plans::gen_plan(&property, &mut rng, thorough) else {
        return 2;
    };
    println!("{}", serde_json::to_string(&plan).unwrap_or_default());
    if args.iter().any(|a| a == "twice") {
        let (_o1, s1) = plans::run_plan(&plan, run_seed, true);
        let (_o2, s2) = plans::run_plan(&plan, run_seed, true);
        for (i, (a, b)) in s1.log.iter().zip(s2.log.iter()).enumerate() {
            if a != b {
                println!("first difference at log line {i}:\n  1: {a}\n  2: {b}");
                for k in i.saturating_sub(8)..i {
                    println!("     {}", s1.log[k]);
                }
                break;
            }
        }
        println!("len {} {} trace {:x} {:x}", s1.log.len(), s2.log.len(), s1.trace, s2.trace);
        return 0;
    }
    let (out, st) = plans::run_plan(&plan, run_seed, true);
    for l in &st.log {
        println!("  {l}");
    }
    if let Some(s) = &out.sample {
        println!("{}", serde_json::to_string_pretty(s).unwrap_or_default());
    }
    println!("{}", digest(&out, &st));
    println!("counters {:?}", st.counters);
    for v in &out.violations {
        println!("  violation {} [{}] {} :: {}", v.property, v.rule, v.signature, v.detail);
    }
    for (n, p) in &st.panics {
        println!("  panic node {n}: {p}");
    }
    0
}

fn spawn_workers(property: &str, tier: &str, seed: u64, runs: u64, cap_s: u64, workers: u64) -> Result<Vec<WorkerResult>, String> {
    let exe = std::env::current_exe().map_err(|e| e.to_string())?;
    let spawn = |k: u64| -> Result<std::process::Child, String> {
        std::process::Command::new(&exe)
            .args([
                "worker",
                property,
                tier,
                &seed.to_string(),
                &k.to_string(),
                &workers.to_string(),
                &runs.to_string(),
                &cap_s.to_string(),
            ])
            .stdout(std::process::Stdio::piped())
            .stderr(std::process::Stdio::inherit())
            .spawn()
            .map_err(|e| e.to_string())
    };
    let collect = |c: std::process::Child| -> Result<WorkerResult, String> {
        let o = c.wait_with_output().map_err(|e| e.to_string())?;
        let text = String::from_utf8_lossy(&o.stdout);
        let line = text
            .lines()
            .find(|l| l.starts_with("WORKER-RESULT "))
            .ok_or_else(|| format!("worker produced no result (status {:?}): {}", o.status, text.chars().take(500).collect::<String>()))?;
        serde_json::from_str(&line["WORKER-RESULT ".len()..]).map_err(|e| e.to_string())
    };
    let mut children = vec![];
    for k in 0..workers {
        children.push((k, spawn(k)?));
    }
    let mut results = vec![];
    for (k, c) in children {
        match collect(c) {
            Ok(r) => results.push(r),
            Err(e) => {
                // a worker that was killed from outside (memory pressure on a busy machine) says
                // nothing about the property: its share of the seeds is a function of its index, so
                // it is simply run again, once
                eprintln!("wbsim: worker {k} failed ({e}); running its share again");
                results.push(collect(spawn(k)?)?);
            }
        }
    }
    Ok(results)
}

pub fn cmd_check(args: &[String]) -> u8 {
    let Some(property) = args.first().cloned() else {
        eprintln!("check: missing property");
        return 2;
    };
    let tier = args.get(1).cloned().unwrap_or_else(|| "quick".into());
    let thorough = tier == "thorough";
    let seed: u64 = std::env::var("VERIF_SEED").ok().and_then(|s| s.parse().ok()).unwrap_or(1);
    let workers: u64 = std::env::var("WBSIM_WORKERS").ok().and_then(|s| s.parse().ok()).unwrap_or(16);
    let (mut runs, mut cap_s) = plans::budget(&property, thorough);
    if let Some(r) = std::env::var("WBSIM_RUNS").ok().and_then(|s| s.parse().ok()) {
        runs = r;
    }
    if let Some(c) = std::env::var("WBSIM_CAP_S").ok().and_then(|s| s.parse().ok()) {
        cap_s = c;
    }
    println!("wbsim check property={property} tier={tier} VERIF_SEED={seed} runs<={runs} workers={workers}");
    let t0 = Instant::now();
    let results = match spawn_workers(&property, &tier, seed, runs, cap_s, workers) {
        Ok(r) => r,
        Err(e) => {
            eprintln!("wbsim: harness error: {e}");
            return 2;
        }
    };
    let findings = load_findings();
    // aggregate
    let mut agg = WorkerResult::default();
    let mut nt: BTreeSet<u64> = BTreeSet::new();
    for r in &results {
        agg.evaluations += r.evaluations;
        agg.nontrivial += r.nontrivial;
        agg.sim_us += r.sim_us;
        agg.polls += r.polls;
        agg.model_states += r.model_states;
        agg.inconclusive += r.inconclusive;
        agg.traces_all_distinct += r.traces_all_distinct;
        agg.determinism_checked += r.determinism_checked;
        agg.aborted_known_server_death += r.aborted_known_server_death;
        nt.extend(r.traces_nontrivial.iter().cloned());
        for (k, v) in &r.counters {
            *agg.counters.entry(k.clone()).or_insert(0) += v;
        }
        for (k, v) in &r.probes {
            *agg.probes.entry(k.clone()).or_insert(0) += v;
        }
        for (k, v) in &r.known_hits {
            *agg.known_hits.entry(k.clone()).or_insert(0) += v;
        }
        if agg.samples.len() < 3 {
            agg.samples.extend(r.samples.iter().take(1).cloned());
        }
        if agg.determinism_mismatch.is_none() {
            agg.determinism_mismatch = r.determinism_mismatch.clone();
        }
        for p in &r.survived_panics {
            if agg.survived_panics.len() < 5 {
                agg.survived_panics.push(p.clone());
            }
        }
    }
    if let Some(m) = &agg.determinism_mismatch {
        eprintln!("wbsim: NONDETERMINISM detected, results are not trustworthy: {m}");
        return 2;
    }
    // known findings
    for (k, n) in &agg.known_hits {
        let (p, sig) = k.split_once('|').unwrap_or(("", k));
        println!("KNOWN-FINDING: property={p} {sig} (seen in {n} runs)");
    }
    // new violations: one per signature, minimised and replayed in a fresh process
    let mut by_sig: BTreeMap<String, Found> = BTreeMap::new();
    for r in &results {
        for f in &r.found {
            by_sig
                .entry(format!("{}|{}", f.violation.property, f.violation.signature))
                .or_insert_with(|| f.clone());
        }
    }
    let mut n_viol = 0;
    let replay_dir = verif_dir().join("replays");
    let _ = std::fs::create_dir_all(&replay_dir);
    for (_sig, f) in by_sig.iter().take(6) {
        let budget = if thorough { 400 } else { 150 };
        let (min_plan, shrink_runs) = minimise(&property, f, budget);
        let (out, st) = plans::run_plan(&min_plan, f.run_seed, false);
        let expect = relevant(&property, &out)
            .into_iter()
            .find(|v| v.property == f.violation.property && v.signature == f.violation.signature)
            .cloned()
            .unwrap_or_else(|| f.violation.clone());
        let rf = ReplayFile {
            property: property.clone(),
            run_seed: f.run_seed,
            expect: expect.clone(),
            plan: min_plan,
            note: format!(
                "found at VERIF_SEED={seed} index={} ; minimised in {shrink_runs} candidate runs; trace={:016x}",
                f.index, st.trace
            ),
        };
        let path = replay_dir.join(format!("{}-{}-{:016x}.json", property, short_sig(&expect.signature), f.run_seed));
        if let Err(e) = std::fs::write(&path, serde_json::to_string_pretty(&rf).unwrap_or_default()) {
            eprintln!("wbsim: cannot write replay file: {e}");
            return 2;
        }
        // fresh process
        let exe = std::env::current_exe().unwrap_or_default();
        let o = std::process::Command::new(exe).arg("replay").arg(&path).output();
        let ok = matches!(&o, Ok(o) if o.status.code() == Some(1));
        if !ok {
            eprintln!(
                "wbsim: harness error: replay of {} in a fresh process did not reproduce the violation",
                path.display()
            );
            return 2;
        }
        println!("  {} [{}] {}", expect.property, expect.rule, expect.signature);
        println!("  detail: {}", expect.detail.chars().take(600).collect::<String>());
        println!("VIOLATION property={} replay={}", property, path.display());
        n_viol += 1;
    }
    let wall = t0.elapsed().as_secs_f64();
    // evidence
    let distinct = nt.len() as u64;
    let mut faults: BTreeMap<String, u64> = BTreeMap::new();
    for (k, v) in &agg.counters {
        faults.insert(k.clone(), *v);
    }
    let ev = json!({
        "property_id": property,
        "tier": tier,
        "seed": seed,
        "level": plans::level(&property),
        "coverage": {
            "evaluations": agg.evaluations,
            "distinct_nontrivial": distinct,
            "rule": plans::rule_text(&property),
            "samples": agg.samples,
            "nontrivial_runs": agg.nontrivial,
            "inconclusive_runs": agg.inconclusive,
            "distinct_interleavings_all_runs_sum_over_workers": agg.traces_all_distinct,
            "model_states_reached": agg.model_states,
            "simulated_seconds": (agg.sim_us as f64) / 1e6,
            "task_polls": agg.polls,
            "runs_per_hour": if wall > 0.0 { (agg.evaluations as f64) * 3600.0 / wall } else { 0.0 },
            "fault_and_seam_counters": faults,
            "probes": agg.probes,
            "known_finding_hits": agg.known_hits,
            "aborted_known_server_death": agg.aborted_known_server_death,
            "determinism_rechecks": agg.determinism_checked,
            "server_task_panics_survived_examples": agg.survived_panics,
            "components": {
                "real": ["worterbuch store/core/API loop", "protocol v0/v1 handlers", "unix socket server", "tosub subsystems", "tokio runtime (current_thread, paused clock, seeded)"],
                "simulated": ["unix/tcp/udp sockets", "file system (instrumented real files on tmpfs)", "task scheduling (seeded deferral/stall)", "randomness", "hash iteration order"],
                "stub": ["wire clients (JSON lines)", "child processes"],
            },
            "exhaustive": false,
        },
        "assumptions": [
            "single simulated clock for all nodes; no preemption inside a poll",
            "debug build with debug assertions and overflow checks",
            "sampling, not enumeration: a clean batch is evidence, not proof",
        ],
        "wall_s": wall,
        "violations": n_viol,
    });
    let evdir = verif_dir().join("evidence");
    let _ = std::fs::create_dir_all(&evdir);
    let evpath = evdir.join(format!("{property}.json"));
    if let Err(e) = std::fs::write(&evpath, serde_json::to_string_pretty(&ev).unwrap_or_default()) {
        eprintln!("wbsim: cannot write evidence: {e}");
        return 2;
    }
    println!(
        "runs={} nontrivial={} distinct_nontrivial={} inconclusive={} simulated_s={:.0} wall_s={:.1} violations={}",
        agg.evaluations,
        agg.nontrivial,
        distinct,
        agg.inconclusive,
        (agg.sim_us as f64) / 1e6,
        wall,
        n_viol
    );
    if n_viol > 0 { 1 } else { 0 }
}

fn short_sig(s: &str) -> String {
    let mut h = 0xcbf2_9ce4_8422_2325u64;
    for b in s.bytes() {
        h = (h ^ b as u64).wrapping_mul(0x100_0000_01b3);
    }
    format!("{:08x}", h as u32)
}

pub fn cmd_selftest(args: &[String]) -> u8 {
    // selftest determinism [runs]: every scenario kind, each seed run twice in this process and
    // once more in another process at a different position; digests must agree
    let runs: u64 = args.get(1).and_then(|s| s.parse().ok()).unwrap_or(40);
    let seed: u64 = std::env::var("VERIF_SEED").ok().and_then(|s| s.parse().ok()).unwrap_or(1);
    if args.first().map(|s| s.as_str()) == Some("digest") {
        // selftest digest <property> <seed> <from> <to> (reverse order)
        let property = args.get(1).cloned().unwrap_or_default();
        let seed: u64 = args.get(2).and_then(|s| s.parse().ok()).unwrap_or(1);
        let from: u64 = args.get(3).and_then(|s| s.parse().ok()).unwrap_or(0);
        let to: u64 = args.get(4).and_then(|s| s.parse().ok()).unwrap_or(0);
        let mut i = to;
        while i > from {
            i -= 1;
            let rs = run_seed_of(seed, &property, i);
            let mut rng = Rng::new(rs);
            let plan = plans::gen_plan(&property, &mut rng, false).expect("plan");
            let (o, st) = plans::run_plan(&plan, rs, false);
            println!("DIGEST {i} {}", digest(&o, &st));
        }
        return 0;
    }
    let mut bad = 0;
    let mut total = 0;
    for property in plans::properties() {
        let mut local: BTreeMap<u64, String> = BTreeMap::new();
        for i in 0..runs {
            let rs = run_seed_of(seed, property, i);
            let mut rng = Rng::new(rs);
            let plan = plans::gen_plan(property, &mut rng, false).expect("plan");
            let (o1, s1) = plans::run_plan(&plan, rs, false);
            let (o2, s2) = plans::run_plan(&plan, rs, false);
            total += 1;
            let (d1, d2) = (digest(&o1, &s1), digest(&o2, &s2));
            if d1 != d2 {
                bad += 1;
                println!("MISMATCH same-process {property} #{i}: {d1} != {d2}");
            }
            local.insert(i, d1);
        }
        // other process, reverse order
        let exe = std::env::current_exe().unwrap_or_default();
        let o = std::process::Command::new(exe)
            .args(["selftest", "digest", property, &seed.to_string(), "0", &runs.to_string()])
            .output();
        if let Ok(o) = o {
            let text = String::from_utf8_lossy(&o.stdout);
            for l in text.lines() {
                if let Some(rest) = l.strip_prefix("DIGEST ") {
                    if let Some((i, d)) = rest.split_once(' ') {
                        let i: u64 = i.parse().unwrap_or(u64::MAX);
                        total += 1;
                        if local.get(&i).map(|x| x.as_str()) != Some(d) {
                            bad += 1;
                            println!("MISMATCH cross-process {property} #{i}: {:?} != {d}", local.get(&i));
                        }
                    }
                }
            }
        } else {
            bad += 1;
        }
        println!("selftest {property}: {} seeds x (2 same-process + 1 other process, reversed order)", runs);
    }
    println!("determinism selftest: {total} comparisons, {bad} mismatches");
    if bad > 0 { 2 } else { 0 }
}
