//! Executable reference model of the *statements* in /verif/properties.jsonl (not of the code).
//! A flat ordered map of keys to entries; wildcard relation: `?` exactly one level, trailing `#`
//! zero or more remaining levels, every other segment only itself.

use serde_json::Value;
use std::collections::{BTreeMap, BTreeSet};

pub const E_ILLEGAL_WILDCARD: u8 = 0;
pub const E_ILLEGAL_MULTI_WILDCARD: u8 = 1;
pub const E_IO: u8 = 3;
pub const E_NO_SUCH_VALUE: u8 = 5;
pub const E_NOT_SUBSCRIBED: u8 = 6;
pub const E_READ_ONLY: u8 = 9;
pub const E_UNAUTHORIZED: u8 = 14;
pub const E_NO_PUB_STREAM: u8 = 15;
pub const E_NOT_LEADER: u8 = 16;
pub const E_CAS: u8 = 17;
pub const E_CAS_VERSION: u8 = 18;
pub const E_NOT_IMPLEMENTED: u8 = 19;
pub const E_KEY_IS_LOCKED: u8 = 20;
pub const E_KEY_IS_NOT_LOCKED: u8 = 21;
pub const E_LOCK_CANCELLED: u8 = 22;
pub const E_EMPTY_KEY: u8 = 25;

#[derive(Clone, Debug, PartialEq)]
pub struct Entry {
    pub value: Value,
    pub cas: Option<u64>,
}

#[derive(Clone, Debug, Default, PartialEq)]
pub struct Store {
    pub map: BTreeMap<String, Entry>,
}

pub fn segs(s: &str) -> Vec<&str> {
    s.split('/').collect()
}

/// the documented wildcard relation
pub fn matches(pattern: &str, key: &str) -> bool {
    let p = segs(pattern);
    let k = segs(key);
    let mut i = 0;
    while i < p.len() {
        match p[i] {
            "#" => return i == p.len() - 1,
            "?" => {
                if i >= k.len() {
                    return false;
                }
            }
            lit => {
                if i >= k.len() || k[i] != lit {
                    return false;
                }
            }
        }
        i += 1;
    }
    k.len() == p.len()
}

/// `#` anywhere but in last position
pub fn has_inner_multi(pattern: &str) -> bool {
    let p = segs(pattern);
    p.iter()
        .enumerate()
        .any(|(i, s)| *s == "#" && i != p.len() - 1)
}

pub fn has_wildcard(key: &str) -> Option<u8> {
    for s in segs(key) {
        if s == "?" {
            return Some(E_ILLEGAL_WILDCARD);
        }
        if s == "#" {
            return Some(E_ILLEGAL_MULTI_WILDCARD);
        }
    }
    None
}

pub fn is_sys(key: &str) -> bool {
    key == "$SYS" || key.starts_with("$SYS/")
}

/// may a client write / delete this literal key or pattern (first segment rule of the statement)
pub fn client_may_touch(key: &str, client_id: &str) -> bool {
    let s = segs(key);
    if s[0] != "$SYS" {
        return true;
    }
    s.len() > 3
        && s[1] == "clients"
        && s[2] == client_id
        && (s[3] == "graveGoods" || s[3] == "lastWill" || s[3] == "clientName")
}

/// is this concrete key protected from client `client_id`
pub fn protected_from(key: &str, client_id: &str) -> bool {
    is_sys(key) && !client_may_touch(key, client_id)
}

#[derive(Clone, Debug, PartialEq)]
pub enum Ans {
    Ack,
    Value(Value),
    CValue(Value, u64),
    Deleted(Value),
    /// as a set (order inside one answer is the implementation's choice)
    Kvs(BTreeMap<String, Value>),
    DeletedKvs(BTreeMap<String, Value>),
    Children(BTreeSet<String>),
    /// any of these error codes is a correct answer
    Err(Vec<u8>),
    /// either of the alternatives (under-specified corner)
    Either(Box<Ans>, Box<Ans>),
}

impl Store {
    pub fn get(&self, key: &str) -> Ans {
        if let Some(e) = has_wildcard(key) {
            return Ans::Err(vec![e]);
        }
        match self.map.get(key) {
            Some(e) => Ans::Value(e.value.clone()),
            None => Ans::Err(vec![E_NO_SUCH_VALUE]),
        }
    }

    pub fn cget(&self, key: &str) -> Ans {
        if let Some(e) = has_wildcard(key) {
            return Ans::Err(vec![e]);
        }
        match self.map.get(key) {
            Some(e) => Ans::CValue(e.value.clone(), e.cas.unwrap_or(0)),
            None => Ans::Err(vec![E_NO_SUCH_VALUE]),
        }
    }

    pub fn matching(&self, pattern: &str) -> BTreeMap<String, Value> {
        self.map
            .iter()
            .filter(|(k, _)| matches(pattern, k))
            .map(|(k, e)| (k.clone(), e.value.clone()))
            .collect()
    }

    pub fn pget(&self, pattern: &str) -> Ans {
        if has_inner_multi(pattern) {
            return Ans::Either(
                Box::new(Ans::Err(vec![E_ILLEGAL_MULTI_WILDCARD])),
                Box::new(Ans::Kvs(BTreeMap::new())),
            );
        }
        Ans::Kvs(self.matching(pattern))
    }

    fn write_errors(key: &str, client: &str, internal: bool) -> Vec<u8> {
        let mut errs = vec![];
        if key.is_empty() {
            errs.push(E_EMPTY_KEY);
        }
        if !internal && !client_may_touch(key, client) {
            errs.push(E_READ_ONLY);
        }
        if let Some(e) = has_wildcard(key) {
            errs.push(e);
        }
        errs
    }

    /// returns (answer, changed) — state is modified only when the answer is not an error
    pub fn set(&mut self, key: &str, value: &Value, client: &str, internal: bool, force: bool) -> Ans {
        let mut errs = Self::write_errors(key, client, internal);
        if errs.is_empty() {
            if let Some(e) = self.map.get(key) {
                if e.cas.is_some() && !force {
                    errs.push(E_CAS);
                }
            }
        }
        if !errs.is_empty() {
            return Ans::Err(errs);
        }
        self.map.insert(
            key.to_owned(),
            Entry {
                value: value.clone(),
                cas: None,
            },
        );
        Ans::Ack
    }

    pub fn cset(&mut self, key: &str, value: &Value, version: u64, client: &str, internal: bool) -> Ans {
        let mut errs = Self::write_errors(key, client, internal);
        if errs.is_empty() {
            let cur = self.map.get(key).and_then(|e| e.cas).unwrap_or(0);
            if cur != version {
                errs.push(E_CAS_VERSION);
            }
        }
        if !errs.is_empty() {
            return Ans::Err(errs);
        }
        self.map.insert(
            key.to_owned(),
            Entry {
                value: value.clone(),
                cas: Some(version.wrapping_add(1)),
            },
        );
        Ans::Ack
    }

    pub fn delete(&mut self, key: &str, client: &str, internal: bool) -> Ans {
        let mut errs = Self::write_errors(key, client, internal);
        if errs.is_empty() && !self.map.contains_key(key) {
            errs.push(E_NO_SUCH_VALUE);
        }
        if !errs.is_empty() {
            return Ans::Err(errs);
        }
        let e = self.map.remove(key).expect("checked");
        Ans::Deleted(e.value)
    }

    /// pdelete as the statements describe it: removes every matching key the client may remove
    pub fn pdelete(&mut self, pattern: &str, client: &str, internal: bool) -> Ans {
        let mut errs = vec![];
        if pattern.is_empty() {
            errs.push(E_EMPTY_KEY);
        }
        if !internal && !client_may_touch(pattern, client) {
            errs.push(E_READ_ONLY);
        }
        if !errs.is_empty() {
            return Ans::Err(errs);
        }
        if has_inner_multi(pattern) {
            return Ans::Either(
                Box::new(Ans::Err(vec![E_ILLEGAL_MULTI_WILDCARD])),
                Box::new(Ans::DeletedKvs(BTreeMap::new())),
            );
        }
        let mut gone = BTreeMap::new();
        let keys: Vec<String> = self
            .map
            .keys()
            .filter(|k| matches(pattern, k))
            .filter(|k| internal || !protected_from(k, client))
            .cloned()
            .collect();
        for k in keys {
            let e = self.map.remove(&k).expect("listed");
            gone.insert(k, e.value);
        }
        Ans::DeletedKvs(gone)
    }

    /// distinct next segments below `parent` (None = root); None if nothing is stored at or below
    pub fn children(&self, parent: Option<&str>) -> Option<BTreeSet<String>> {
        match parent {
            None => Some(
                self.map
                    .keys()
                    .map(|k| segs(k)[0].to_owned())
                    .collect(),
            ),
            Some(p) => {
                let ps = segs(p);
                let mut found = false;
                let mut out = BTreeSet::new();
                for k in self.map.keys() {
                    let ks = segs(k);
                    if ks.len() >= ps.len() && ks[..ps.len()] == ps[..] {
                        found = true;
                        if ks.len() > ps.len() {
                            out.insert(ks[ps.len()].to_owned());
                        }
                    }
                }
                if found { Some(out) } else { None }
            }
        }
    }

    pub fn ls(&self, parent: Option<&str>) -> Ans {
        match self.children(parent) {
            Some(c) => Ans::Children(c),
            None => Ans::Err(vec![E_NO_SUCH_VALUE]),
        }
    }

    /// union of the children of all existing nodes matching the parent pattern
    pub fn pls(&self, pattern: Option<&str>) -> Ans {
        let Some(pattern) = pattern else {
            return self.ls(None);
        };
        let ps = segs(pattern);
        if ps.iter().any(|s| *s == "#") {
            return Ans::Either(
                Box::new(Ans::Err(vec![E_ILLEGAL_MULTI_WILDCARD])),
                Box::new(Ans::Children(BTreeSet::new())),
            );
        }
        let mut out = BTreeSet::new();
        for k in self.map.keys() {
            let ks = segs(k);
            if ks.len() > ps.len()
                && ps
                    .iter()
                    .zip(ks.iter())
                    .all(|(p, k)| *p == "?" || p == k)
            {
                out.insert(ks[ps.len()].to_owned());
            }
        }
        Ans::Children(out)
    }

    pub fn user_view(&self) -> BTreeMap<String, Entry> {
        self.map
            .iter()
            .filter(|(k, _)| !is_sys(k))
            .map(|(k, v)| (k.clone(), v.clone()))
            .collect()
    }
}

#[cfg(test)]
mod test {
    use super::*;
    #[test]
    fn wildcard_relation() {
        assert!(matches("a/#", "a"));
        assert!(matches("a/#", "a/b/c"));
        assert!(matches("#", "x"));
        assert!(matches("a/?", "a/b"));
        assert!(!matches("a/?", "a"));
        assert!(!matches("a/?", "a/b/c"));
        assert!(matches("?/b", "/b"));
        assert!(!matches("a", "a/b"));
        assert!(!matches("a/#/b", "a/x/b"));
    }
}
