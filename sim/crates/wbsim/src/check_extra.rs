//! C15 (authorization) and C16 (aggregated subscriptions) oracles over the wire history.

use crate::check_wire::{Checker, OpRec, sm_code};
use crate::model;
use serde::{Deserialize, Serialize};
use std::collections::{BTreeMap, BTreeSet};
use worterbuch_common::{ClientMessage as CM, PStateEvent, ServerMessage as SM};

#[derive(Clone, Debug, Serialize, Deserialize, PartialEq)]
pub enum TokenKind {
    /// no authorization request at all
    Missing,
    /// signed with another key
    Forged,
    /// valid signature, expiry in the past
    Expired,
    Valid,
}

#[derive(Clone, Debug, Serialize, Deserialize, PartialEq)]
pub struct Grant {
    pub kind: TokenKind,
    pub read: Vec<String>,
    pub write: Vec<String>,
    pub delete: Vec<String>,
}

#[derive(Clone, Debug, Serialize, Deserialize, PartialEq)]
pub struct AuthSpec {
    pub key: String,
    /// one per client, by index
    pub grants: Vec<Grant>,
}

/// every key a request pattern can touch is covered by some granted pattern, decided over a finite
/// universe that contains every literal segment involved plus a fresh one, one level deeper than
/// the longest pattern involved
pub fn covered(request: &str, grants: &[String]) -> bool {
    let mut alphabet: BTreeSet<String> = BTreeSet::new();
    let mut depth = model::segs(request).len();
    for p in std::iter::once(request).chain(grants.iter().map(|g| g.as_str())) {
        let s = model::segs(p);
        depth = depth.max(s.len());
        for x in s {
            if x != "?" && x != "#" {
                alphabet.insert(x.to_owned());
            }
        }
    }
    alphabet.insert("\u{1}fresh".to_owned());
    let alphabet: Vec<String> = alphabet.into_iter().collect();
    let depth = (depth + 1).min(6);
    // enumerate keys matching the request
    fn rec(prefix: &mut Vec<String>, depth: usize, alphabet: &[String], request: &str, grants: &[String]) -> bool {
        if !prefix.is_empty() {
            let key = prefix.join("/");
            if model::matches(request, &key) && !grants.iter().any(|g| model::matches(g, &key)) {
                return false;
            }
        }
        if prefix.len() >= depth {
            return true;
        }
        for a in alphabet {
            prefix.push(a.clone());
            // prune: can any extension still match the request?
            let ok = rec(prefix, depth, alphabet, request, grants);
            prefix.pop();
            if !ok {
                return false;
            }
        }
        true
    }
    rec(&mut vec![], depth, &alphabet, request, grants)
}

fn privilege_and_pattern(req: &CM) -> Option<(u8, String)> {
    // 0 read, 1 write, 2 delete
    Some(match req {
        CM::Get(m) | CM::CGet(m) => (0, m.key.clone()),
        CM::PGet(m) => (0, m.request_pattern.clone()),
        CM::Subscribe(m) => (0, m.key.clone()),
        CM::PSubscribe(m) => (0, m.request_pattern.clone()),
        CM::Ls(m) => (0, m.parent.as_ref().map(|p| format!("{p}/?")).unwrap_or("?".into())),
        CM::PLs(m) => (0, m.parent_pattern.as_ref().map(|p| format!("{p}/?")).unwrap_or("?".into())),
        CM::SubscribeLs(m) => (0, m.parent.as_ref().map(|p| format!("{p}/?")).unwrap_or("?".into())),
        CM::Set(m) => (1, m.key.clone()),
        CM::CSet(m) => (1, m.key.clone()),
        CM::Publish(m) => (1, m.key.clone()),
        CM::SPubInit(m) => (1, m.key.clone()),
        CM::Lock(m) | CM::AcquireLock(m) | CM::ReleaseLock(m) => (1, m.key.clone()),
        CM::Delete(m) => (2, m.key.clone()),
        CM::PDelete(m) => (2, m.request_pattern.clone()),
        _ => return None,
    })
}

pub fn check_auth(ck: &mut Checker<'_>, spec: &AuthSpec) {
    let ops: Vec<OpRec> = ck.p.ops.clone();
    for op in ops.iter() {
        let Some(req) = &op.req else { continue };
        let Some(grant) = spec.grants.get(op.client) else { continue };
        let Some((priv_, pat)) = privilege_and_pattern(req) else { continue };
        let answered_ok = op
            .ans
            .as_ref()
            .map(|a| sm_code(&a.1).is_none())
            .unwrap_or(false);
        let had_effect = op.placed;
        // was the session authorized when this request was sent? (Authorized message before it)
        let authorized = ops.iter().any(|o| {
            o.client == op.client
                && o.pos < op.pos
                && matches!(o.req, Some(CM::AuthorizationRequest(_)))
                && matches!(o.ans, Some((s, SM::Authorized(_))) if s < op.ans.as_ref().map(|a| a.0).unwrap_or(u64::MAX))
        });
        if grant.kind != TokenKind::Valid || !authorized {
            if grant.kind != TokenKind::Valid && (answered_ok || had_effect) {
                ck.out.violate(
                    "C15",
                    "served-without-valid-token",
                    "a request was served although no valid token had been presented",
                    format!("client {} ({:?}): {} -> {:?}", op.client, grant.kind, op.raw, op.ans.as_ref().map(|a| crate::check_wire::describe(&a.1))),
                );
            }
            continue;
        }
        ck.out.probe("authorized_requests_checked");
        let grants = match priv_ {
            0 => &grant.read,
            1 => &grant.write,
            _ => &grant.delete,
        };
        let cov = covered(&pat, grants);
        if !cov {
            ck.out.probe("requests_outside_grant");
            if answered_ok || had_effect {
                ck.out.violate(
                    "C15",
                    "served-outside-grant",
                    "a request was served although a key it can reach is not covered by the token's grants",
                    format!("client {} grants {:?}: {} -> {:?} (effect: {had_effect})", op.client, grants, op.raw, op.ans.as_ref().map(|a| crate::check_wire::describe(&a.1))),
                );
            } else if let Some((_, a)) = &op.ans {
                if sm_code(a) != Some(model::E_UNAUTHORIZED) {
                    ck.out.violate(
                        "C15",
                        "wrong-denial",
                        "a request outside the grant was not answered with an authorization error",
                        format!("{} -> {}", op.raw, crate::check_wire::describe(a)),
                    );
                }
            }
        } else if answered_ok {
            ck.out.probe("requests_inside_grant_served");
            // served requests return no key outside the grant
            if let Some((_, SM::PState(ps))) = &op.ans {
                let kvs = match &ps.event {
                    PStateEvent::KeyValuePairs(k) | PStateEvent::Deleted(k) => k,
                };
                for kv in kvs {
                    if !grants.iter().any(|g| model::matches(g, &kv.key)) {
                        ck.out.violate(
                            "C15",
                            "key-outside-grant-returned",
                            "a served request returned a key the token does not grant",
                            format!("{} returned {}", op.raw, kv.key),
                        );
                    }
                }
            }
        }
    }
}

/// C16: content of an aggregated subscription against the plain subscription on the same pattern
/// of the same session; delay bound in calm runs.
pub fn check_aggregated(ck: &mut Checker<'_>, calm: bool) {
    let ops: Vec<OpRec> = ck.p.ops.clone();
    for agg in ops.iter() {
        let Some(CM::PSubscribe(a)) = &agg.req else { continue };
        let Some(ms) = a.aggregate_events else { continue };
        if !matches!(agg.ans, Some((_, SM::Ack(_)))) {
            continue;
        }
        // the plain twin
        let Some(plain) = ops.iter().find(|o| {
            o.client == agg.client
                && o.id != agg.id
                && matches!(&o.req, Some(CM::PSubscribe(p)) if p.aggregate_events.is_none()
                    && p.request_pattern == a.request_pattern
                    && p.unique == a.unique
                    && p.live_only.unwrap_or(false) == a.live_only.unwrap_or(false))
                && matches!(o.ans, Some((_, SM::Ack(_))))
        }) else {
            continue;
        };
        // the comparison presupposes that both subscriptions stood before the first write: a
        // subscriber held up by stalls may set its second subscription up while the writers are
        // already at work, and then the two snapshots differ
        let ready = match (&agg.ans, &plain.ans) {
            (Some((a, _)), Some((b, _))) => (*a).max(*b),
            _ => continue,
        };
        if ops.iter().any(|o| o.client != agg.client && o.inv < ready) {
            ck.out.probe("aggregated_pair_skipped_writers_started_before_both_subscriptions_stood");
            continue;
        }
        ck.out.probe("aggregated_pairs_checked");
        let live_only = a.live_only.unwrap_or(false);
        type Seq = BTreeMap<String, Vec<(bool, String, u64)>>; // key -> [(deleted, value, time)]
        let flatten = |tid: u64, batches: &mut usize| -> (Seq, Vec<u64>) {
            let mut per_key: Seq = BTreeMap::new();
            let mut batch_sizes = vec![];
            if let Some(s) = ck.p.subs.get(&(agg.client, tid)) {
                for (i, ((_, m), t)) in s.msgs.iter().zip(s.times.iter()).enumerate() {
                    if i == 0 && !live_only {
                        continue; // snapshot, forwarded unbatched
                    }
                    if let SM::PState(ps) = m {
                        let (del, kvs) = match &ps.event {
                            PStateEvent::KeyValuePairs(k) => (false, k),
                            PStateEvent::Deleted(k) => (true, k),
                        };
                        *batches += 1;
                        batch_sizes.push(kvs.len() as u64);
                        for kv in kvs {
                            if model::is_sys(&kv.key) {
                                continue;
                            }
                            per_key.entry(kv.key.clone()).or_default().push((del, kv.value.to_string(), *t));
                        }
                    }
                }
            }
            (per_key, batch_sizes)
        };
        let mut nb = 0;
        let (a_seq, a_sizes) = flatten(agg.tid, &mut nb);
        let mut np = 0;
        let (p_seq, _) = flatten(plain.tid, &mut np);
        if a_sizes.iter().any(|s| *s >= 2) {
            ck.out.probe("aggregated_batch_with_several_events");
        }
        let strip = |s: &Seq| -> BTreeMap<String, Vec<(bool, String)>> {
            s.iter().map(|(k, v)| (k.clone(), v.iter().map(|x| (x.0, x.1.clone())).collect())).collect()
        };
        if strip(&a_seq) != strip(&p_seq) {
            let mut diff = vec![];
            for k in a_seq.keys().chain(p_seq.keys()).collect::<BTreeSet<_>>() {
                let x = strip(&a_seq).get(k).cloned().unwrap_or_default();
                let y = strip(&p_seq).get(k).cloned().unwrap_or_default();
                if x != y {
                    diff.push(format!("{k}: aggregated {x:?} plain {y:?}"));
                }
            }
            ck.out.violate(
                "C16",
                "aggregated-content",
                "an aggregated subscription lost, duplicated or reordered events of a key compared with the plain subscription",
                format!("pattern {} interval {ms} ms: {}", a.request_pattern, diff.join("; ")),
            );
        } else if calm {
            // delay: every event reaches the aggregated subscription at most one interval (plus a
            // small scheduling slack) after it reached the plain one
            let slack = 5_000;
            for (k, evs) in &a_seq {
                for (i, (_, _, ta)) in evs.iter().enumerate() {
                    let tp = p_seq[k][i].2;
                    if *ta > tp + ms * 1000 + slack {
                        ck.out.violate(
                            "C16",
                            "aggregated-delay",
                            "an event waited longer than the requested aggregation interval",
                            format!("pattern {} interval {ms} ms: event #{i} of {k} arrived {} µs after the plain one", a.request_pattern, ta - tp),
                        );
                    }
                }
            }
        }
    }
}
