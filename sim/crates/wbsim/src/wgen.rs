//! Seeded workload generation over a tiny key alphabet (collisions, prefixes and wildcards at
//! every position are frequent); every written value is unique so every read is attributable.

use crate::wire::{ClientPlan, EndKind, Op};
use serde::{Deserialize, Serialize};
use serde_json::{Value, json};
use simcore::Rng;

pub const SEGS: &[&str] = &["a", "b", "", "ü", "c"];

#[derive(Clone, Debug, Serialize, Deserialize, PartialEq, Default)]
pub struct Mix {
    pub get: u32,
    pub cget: u32,
    pub pget: u32,
    pub set: u32,
    pub cset: u32,
    pub delete: u32,
    pub pdelete: u32,
    pub ls: u32,
    pub pls: u32,
    pub publish: u32,
    pub spub: u32,
    pub subscribe: u32,
    pub psubscribe: u32,
    pub unsubscribe: u32,
    pub subscribe_ls: u32,
    pub unsubscribe_ls: u32,
    pub lock: u32,
    pub acquire: u32,
    pub release: u32,
    pub cas_cycle: u32,
    pub cas_rewrite: u32,
    pub grave_goods: u32,
    pub last_will: u32,
    pub sys_attack: u32,
    pub sys_odd: u32,
    pub bad: u32,
    pub sleep: u32,
}

pub fn key(rng: &mut Rng, max_depth: u64) -> String {
    let d = rng.range(1, max_depth);
    let mut parts = vec![];
    for _ in 0..d {
        // bias towards a/b so that keys collide
        let s = if rng.chance(3, 4) {
            *rng.pick(&["a", "b"])
        } else {
            *rng.pick(SEGS)
        };
        parts.push(s);
    }
    parts.join("/")
}

pub fn pattern(rng: &mut Rng, max_depth: u64) -> String {
    let d = rng.range(1, max_depth);
    let mut parts: Vec<&str> = vec![];
    for i in 0..d {
        let last = i == d - 1;
        let s = if rng.chance(1, 3) {
            if last && rng.chance(1, 2) { "#" } else { "?" }
        } else if rng.chance(3, 4) {
            *rng.pick(&["a", "b"])
        } else {
            *rng.pick(SEGS)
        };
        parts.push(s);
    }
    // rarely: an illegal inner '#'
    if d >= 2 && rng.chance(1, 25) {
        parts[0] = "#";
    }
    parts.join("/")
}

pub fn unique_value(rng: &mut Rng, client: usize, n: usize) -> Value {
    let tag = format!("v{client}_{n}");
    match rng.below(12) {
        0 => json!({"t": tag, "Cas": [1, 2]}),
        1 => json!([tag, 1.5, null]),
        2 => json!({"v": tag, "t": {"x": 1}}),
        3 => json!({"Cas": [tag, 7]}),
        _ => json!(tag),
    }
}

pub struct GenCtx {
    /// last (key, value) this client wrote: re-used now and then for value-preserving writes
    pub last_write: Option<(String, Value)>,
    pub client: usize,
    pub n: usize,
    pub subs: usize,
    pub ls_subs: usize,
    pub spubs: usize,
    pub depth: u64,
    pub lock_keys: Vec<String>,
    pub cas_keys: Vec<String>,
}

fn weighted(rng: &mut Rng, w: &[(u32, u8)]) -> u8 {
    let total: u32 = w.iter().map(|x| x.0).sum();
    if total == 0 {
        return 0;
    }
    let mut r = rng.below(total as u64) as u32;
    for (wt, id) in w {
        if r < *wt {
            return *id;
        }
        r -= *wt;
    }
    0
}

pub fn gen_op(rng: &mut Rng, mix: &Mix, g: &mut GenCtx) -> Op {
    let table = [
        (mix.get, 1u8),
        (mix.cget, 2),
        (mix.pget, 3),
        (mix.set, 4),
        (mix.cset, 5),
        (mix.delete, 6),
        (mix.pdelete, 7),
        (mix.ls, 8),
        (mix.pls, 9),
        (mix.publish, 10),
        (mix.spub, 11),
        (mix.subscribe, 12),
        (mix.psubscribe, 13),
        (mix.unsubscribe, 14),
        (mix.subscribe_ls, 15),
        (mix.unsubscribe_ls, 16),
        (mix.lock, 17),
        (mix.acquire, 18),
        (mix.release, 19),
        (mix.cas_cycle, 20),
        (mix.grave_goods, 21),
        (mix.last_will, 22),
        (mix.sys_attack, 23),
        (mix.bad, 24),
        (mix.sleep, 25),
        (mix.cas_rewrite, 26),
        (mix.sys_odd, 27),
    ];
    g.n += 1;
    let n = g.n;
    let c = g.client;
    let d = g.depth;
    match weighted(rng, &table) {
        1 => Op::Req(json!({"get": {"key": key(rng, d)}})),
        2 => Op::Req(json!({"cGet": {"key": key(rng, d)}})),
        3 => Op::Req(json!({"pGet": {"requestPattern": pattern(rng, d)}})),
        4 => {
            // one in eight plain sets repeats this client's previous write (value-preserving)
            if let (true, Some((k, v))) = (false && rng.chance(1, 8), g.last_write.clone()) {
                Op::Req(json!({"set": {"key": k, "value": v}}))
            } else {
                let (k, v) = (key(rng, d), unique_value(rng, c, n));
                g.last_write = Some((k.clone(), v.clone()));
                Op::Req(json!({"set": {"key": k, "value": v}}))
            }
        }
        5 => {
            let version = *rng.pick(&[0u64, 0, 1, 1, 2, 3, u64::MAX]);
            let k = if !g.cas_keys.is_empty() && rng.chance(1, 2) {
                rng.pick(&g.cas_keys).clone()
            } else {
                key(rng, d)
            };
            Op::Req(json!({"cSet": {"key": k, "value": unique_value(rng, c, n), "version": version}}))
        }
        6 => Op::Req(json!({"delete": {"key": key(rng, d)}})),
        7 => {
            let quiet = match rng.below(4) {
                0 => json!(true),
                1 => json!(false),
                _ => Value::Null,
            };
            Op::Req(json!({"pDelete": {"requestPattern": pattern(rng, d), "quiet": quiet}}))
        }
        8 => {
            let parent = if rng.chance(1, 4) { Value::Null } else { json!(key(rng, d)) };
            Op::Req(json!({"ls": {"parent": parent}}))
        }
        9 => {
            let parent = if rng.chance(1, 5) { Value::Null } else { json!(pattern(rng, d)) };
            Op::Req(json!({"pLs": {"parentPattern": parent}}))
        }
        10 => Op::Req(json!({"publish": {"key": key(rng, d), "value": unique_value(rng, c, n)}})),
        11 => {
            if g.spubs == 0 || rng.chance(1, 4) {
                g.spubs += 1;
                Op::Req(json!({"sPubInit": {"key": key(rng, d)}}))
            } else {
                Op::SPubNth {
                    n: rng.below(g.spubs as u64 + 1) as usize,
                    value: unique_value(rng, c, n),
                }
            }
        }
        12 => {
            g.subs += 1;
            let live = match rng.below(3) {
                0 => json!(true),
                1 => json!(false),
                _ => Value::Null,
            };
            let mut m = json!({"key": key(rng, d), "unique": rng.chance(1, 2)});
            if !live.is_null() {
                m["liveOnly"] = live;
            }
            Op::Req(json!({"subscribe": m}))
        }
        13 => {
            g.subs += 1;
            let mut m = json!({"requestPattern": pattern(rng, d), "unique": rng.chance(1, 2)});
            match rng.below(3) {
                0 => m["liveOnly"] = json!(true),
                1 => m["liveOnly"] = json!(false),
                _ => {}
            }
            Op::Req(json!({"pSubscribe": m}))
        }
        14 => Op::UnsubNth {
            n: rng.below(g.subs as u64 + 1) as usize,
            ls: false,
        },
        15 => {
            g.ls_subs += 1;
            // nested parents are frequent: a, a/b, a/b/a
            let parent = match rng.below(8) {
                0 => Value::Null,
                1..=2 => json!("a"),
                3..=4 => json!("a/b"),
                5 => json!("a/b/a"),
                _ => json!(key(rng, d)),
            };
            Op::Req(json!({"subscribeLs": {"parent": parent}}))
        }
        16 => Op::UnsubNth {
            n: rng.below(g.ls_subs as u64 + 1) as usize,
            ls: true,
        },
        17 => Op::Req(json!({"lock": {"key": rng.pick(&g.lock_keys).clone()}})),
        18 => Op::Req(json!({"acquireLock": {"key": rng.pick(&g.lock_keys).clone()}})),
        19 => Op::Req(json!({"releaseLock": {"key": rng.pick(&g.lock_keys).clone()}})),
        20 => Op::CasCycle {
            key: rng.pick(&g.cas_keys).clone(),
            token: format!("t{c}_{n}"),
        },
        21 => {
            let k = rng.range(0, 3);
            let pats: Vec<Value> = (0..k)
                .map(|_| {
                    if rng.chance(1, 8) {
                        json!(rng.pick(&["$SYS/sentinel/#", "$SYS/version", "$SYS/clients/#"]).to_string())
                    } else {
                        json!(pattern(rng, d))
                    }
                })
                .collect();
            let v = if rng.chance(1, 10) {
                json!("not a list")
            } else {
                json!(pats)
            };
            Op::Req(json!({"set": {"key": "$SYS/clients/<SELF>/graveGoods", "value": v}}))
        }
        22 => {
            let k = rng.range(0, 3);
            let kvs: Vec<Value> = (0..k)
                .map(|i| {
                    let kk = if rng.chance(1, 8) {
                        rng.pick(&["$SYS/version", "$SYS/sentinel/x", "$SYS/clients/<SELF>/protocol"]).to_string()
                    } else {
                        key(rng, d)
                    };
                    json!({"key": kk, "value": format!("w{c}_{n}_{i}")})
                })
                .collect();
            let v = if rng.chance(1, 10) { json!({"bad": 1}) } else { json!(kvs) };
            Op::Req(json!({"set": {"key": "$SYS/clients/<SELF>/lastWill", "value": v}}))
        }
        23 => sys_attack(rng, c, n),
        24 => bad_line(rng),
        25 => Op::Sleep(rng.range(1, 2_000_000)),
        27 => {
            let t = rng.pick(SYS_ODD).to_string();
            let v = json!(format!("x{c}_{n}"));
            match rng.below(8) {
                0 => Op::Req(json!({"set": {"key": t, "value": v}})),
                1 => Op::Req(json!({"cSet": {"key": t, "value": v, "version": 0}})),
                2 => Op::Req(json!({"delete": {"key": t}})),
                3 => Op::Req(json!({"pDelete": {"requestPattern": t}})),
                4 => Op::Req(json!({"sPubInit": {"key": t}})),
                5 => Op::Req(json!({"lock": {"key": t}})),
                6 => Op::Req(json!({"set": {"key": "$SYS/clients/<SELF>/lastWill", "value": [{"key": t, "value": v}]}})),
                _ => Op::Req(json!({"get": {"key": t}})),
            }
        }
        26 => Op::CasRewrite {
            key: rng.pick(&g.cas_keys).clone(),
            token: format!("r{c}_{n}"),
        },
        _ => Op::Req(json!({"get": {"key": key(rng, d)}})),
    }
}

pub const SYS_TARGETS: &[&str] = &[
    "$SYS/sentinel/x",
    "$SYS/sentinel/y/z",
    "$SYS/version",
    "$SYS/license",
    "$SYS/clients",
    "$SYS/uptime",
    "$SYS/clients/<SELF>/protocol",
    "$SYS/clients/<SELF>/clientName",
    "$SYS/store/mode",
    "$SYS",
    "$SYS/clients/<SELF>",
    "$SYS/clients/<SELF>/",
    "$SYS/clients/<SELF_UPPER>/clientName",
    "$SYS/clients/<SELF_SIMPLE>/graveGoods",
    "$SYS/clients/<SELF_BRACED>/lastWill",
    "$SYS/clients/<SELF_URN>/clientName",
    "$SYS/clients/<SELF>/clientName/x",
    "$SYS/clients",
];

/// odd literal `$SYS` shapes for the robustness check (no wildcards: nothing is wiped)
pub const SYS_ODD: &[&str] = &[
    "$SYS",
    "$SYS/",
    "$SYS/clients",
    "$SYS/clients/",
    "$SYS/clients/<SELF>",
    "$SYS/clients/<SELF>/",
    "$SYS/clients/<SELF>/graveGoods/x",
    "$SYS/clients/<SELF_UPPER>/clientName",
    "$SYS//",
];

pub const SYS_PATTERNS: &[&str] = &[
    "#",
    "?/#",
    "?/sentinel/#",
    "?/sentinel/x",
    "?/?/?",
    "$SYS/#",
    "$SYS/sentinel/#",
    "$SYS/?/x",
    "?/version",
    "?/clients/#",
    "$SYS/clients/<SELF>/#",
    "$SYS/clients/?/graveGoods",
];

fn sys_attack(rng: &mut Rng, c: usize, n: usize) -> Op {
    let t = rng.pick(SYS_TARGETS).to_string();
    let p = rng.pick(SYS_PATTERNS).to_string();
    let v = json!(format!("x{c}_{n}"));
    match rng.below(9) {
        0 => Op::Req(json!({"set": {"key": t, "value": v}})),
        1 => Op::Req(json!({"cSet": {"key": t, "value": v, "version": 0}})),
        2 => Op::Req(json!({"delete": {"key": t}})),
        3 => Op::Req(json!({"pDelete": {"requestPattern": p}})),
        4 => Op::Req(json!({"publish": {"key": t, "value": v}})),
        5 => Op::Req(json!({"sPubInit": {"key": t}})),
        6 => Op::Req(json!({"set": {"key": "$SYS/clients/<SELF>/graveGoods", "value": [p]}})),
        7 => Op::Req(json!({"set": {"key": "$SYS/clients/<SELF>/lastWill", "value": [{"key": t, "value": v}]}})),
        _ => Op::Req(json!({"lock": {"key": t}})),
    }
}

fn bad_line(rng: &mut Rng) -> Op {
    match rng.below(14) {
        0 => Op::Raw("".into()),
        1 => Op::Raw("null".into()),
        2 => Op::Raw("{".into()),
        3 => Op::Raw(r#"{"set":{"transactionId":-1,"key":"a","value":1}}"#.into()),
        4 => Op::Raw(r#"{"get":{"transactionId":18446744073709551615,"key":"a"}}"#.into()),
        5 => Op::Raw(r#"{"unknownKind":{"transactionId":1}}"#.into()),
        6 => Op::Raw(r#"{"set":{"transactionId":1,"key":5,"value":1}}"#.into()),
        7 => Op::Raw(format!(
            r#"{{"get":{{"transactionId":77,"key":"{}"}}}}"#,
            "x/".repeat(rng.range(1, 3000) as usize)
        )),
        8 => Op::RawBytes("fffe00ff0a".into()),
        9 => Op::Raw(r#"{"transform":{"transactionId":3,"key":"a","template":{}}}"#.into()),
        10 => Op::Raw(r#"{"protocolSwitchRequest":{"version":7}}"#.into()),
        11 => Op::Raw(r#"{"cSet":{"transactionId":5,"key":"a","value":1,"version":1e30}}"#.into()),
        12 => Op::Raw(r#"[1,2,3]"#.into()),
        _ => Op::Raw(r#"{"set":{"transactionId":1,"key":"a"}}"#.into()),
    }
}

pub fn gen_client(
    rng: &mut Rng,
    client: usize,
    mix: &Mix,
    n_ops: usize,
    depth: u64,
    lock_keys: &[String],
    cas_keys: &[String],
    v1_only: bool,
) -> ClientPlan {
    let mut g = GenCtx {
        last_write: None,
        client,
        n: 0,
        subs: 0,
        ls_subs: 0,
        spubs: 0,
        depth,
        lock_keys: lock_keys.to_vec(),
        cas_keys: cas_keys.to_vec(),
    };
    let ops = (0..n_ops).map(|_| gen_op(rng, mix, &mut g)).collect();
    ClientPlan {
        proto: if v1_only {
            *rng.pick(&[None, Some(1)])
        } else {
            *rng.pick(&[None, Some(1), Some(0)])
        },
        pipeline: rng.chance(1, 2),
        start_delay_us: if rng.chance(1, 2) { 0 } else { rng.range(0, 50_000) },
        think_us: *rng.pick(&[0, 0, 100, 10_000]),
        ops,
        end: *rng.pick(&[EndKind::Stay, EndKind::Close, EndKind::Reset, EndKind::Stay]),
        crash_after_op: None,
        auth_token: None,
        tcp: false,
    }
}
