//! C20: the real client library (connect, command loop, callbacks, SendBuffer, update/swap) on
//! the simulated Unix socket against a real server. Every task works in its own key namespace, so
//! the correct result of every call is known whatever the interleaving; unique values make a
//! swap of answers between concurrent calls visible.

use crate::harness::{self, KnobSpec, Outcome};
use crate::wire::Ev;
use serde::{Deserialize, Serialize};
use serde_json::{Value, json};
use simcore::Rng;
use std::collections::BTreeMap;
use std::sync::{Arc, Mutex};
use std::time::Duration;
use worterbuch_common::{ClientId, PStateEvent, ServerMessage as SM, WbApi, error::WorterbuchError};

#[derive(Clone, Debug, Serialize, Deserialize, PartialEq)]
pub enum Call {
    Set { k: u8 },
    SetAsync { k: u8 },
    Get { k: u8 },
    CSet { k: u8 },
    CGet { k: u8 },
    PGet,
    Delete { k: u8 },
    PDeleteQuiet { k: u8 },
    Ls,
    /// subscribe to own key, set it, expect the event, unsubscribe (variant 0: awaited, 1: async),
    /// set again
    SubCycle { k: u8, psub: bool, variant: u8 },
    /// subscribe_ls on the own namespace, create a key, expect a list, unsubscribe_ls (0/1), create another
    LsSubCycle { variant: u8 },
    /// fire-and-forget subscribe (kind 0: subscribe_async, 1: psubscribe_async, 2: subscribe_ls_async),
    /// then unsubscribe (variant 0: awaited, 1: async)
    AsyncSubCycle { k: u8, kind: u8, variant: u8 },
    PublishToSelf { k: u8 },
    Lock { k: u8 },
    /// increment the counter shared by all tasks through the library's `update`
    UpdateShared,
    /// spub on the instance-wide shared stream
    SPubShared,
    Sleep { us: u64 },
}

#[derive(Clone, Debug, Serialize, Deserialize, PartialEq)]
pub enum BufOp {
    SetLater { k: u8 },
    PublishLater { k: u8 },
    Sleep { us: u64 },
}

#[derive(Clone, Debug, Serialize, Deserialize, PartialEq)]
pub struct Instance {
    pub client_cbs: usize,
    pub backpressure: bool,
    pub tasks: Vec<Vec<Call>>,
    pub buffer: Option<(u64, Vec<BufOp>)>,
}

#[derive(Clone, Debug, Serialize, Deserialize, PartialEq)]
pub struct ClientPlan {
    #[serde(default)]
    pub focus: String,
    pub knobs: KnobSpec,
    pub channel_buffer_size: usize,
    pub instances: Vec<Instance>,
}

pub fn gen_plan(rng: &mut Rng, focus: &str, thorough: bool) -> ClientPlan {
    let mut knobs = if rng.chance(1, 5) { KnobSpec::calm() } else { KnobSpec::draw(rng) };
    // With socket buffers of a few bytes the client's command loop (which does not read while it
    // sends) and the server's session loop (which does not read while it answers) block each
    // other: a flow-control deadlock that needs exhausted buffers in both directions. Recorded in
    // DESIGN.md as an observation; the C20 oracle runs with realistic socket buffers.
    knobs.pipe_capacity = knobs.pipe_capacity.max(1 << 16);
    let n_inst = rng.range(1, if thorough { 3 } else { 2 }) as usize;
    let mut instances = vec![];
    for _ in 0..n_inst {
        let n_tasks = rng.range(1, if thorough { 8 } else { 5 }) as usize;
        let mut tasks = vec![];
        for _ in 0..n_tasks {
            let n = rng.range(2, if thorough { 20 } else { 12 }) as usize;
            let mut calls = vec![];
            for _ in 0..n {
                let k = rng.below(3) as u8;
                let roll = if focus == "C02" && rng.chance(2, 3) { 22 } else { rng.below(28) };
                let c = match roll {
                    0..=4 => Call::Set { k },
                    5 => Call::SetAsync { k },
                    6..=8 => Call::Get { k },
                    9..=10 => Call::CSet { k: 3 + (k % 2) },
                    11 => Call::CGet { k: 3 + (k % 2) },
                    12 => Call::PGet,
                    13 => Call::Delete { k },
                    14 => Call::PDeleteQuiet { k },
                    15 => Call::Ls,
                    16..=17 => Call::SubCycle { k, psub: rng.chance(1, 2), variant: rng.below(2) as u8 },
                    18..=19 => Call::LsSubCycle { variant: rng.below(2) as u8 },
                    20 => Call::PublishToSelf { k },
                    21 => Call::Lock { k },
                    22..=23 => Call::UpdateShared,
                    24 => Call::SPubShared,
                    26..=27 => Call::AsyncSubCycle { k, kind: rng.below(3) as u8, variant: rng.below(2) as u8 },
                    _ => Call::Sleep { us: rng.range(1, 20_000) },
                };
                calls.push(c);
            }
            tasks.push(calls);
        }
        let buffer = if rng.chance(1, 2) {
            let delay = *rng.pick(&[1_000u64, 20_000, 200_000]);
            let n = rng.range(1, 10) as usize;
            let ops = (0..n)
                .map(|_| match rng.below(5) {
                    0..=1 => BufOp::SetLater { k: rng.below(3) as u8 },
                    2..=3 => BufOp::PublishLater { k: rng.below(3) as u8 },
                    _ => BufOp::Sleep { us: rng.range(0, delay * 2) },
                })
                .collect();
            Some((delay, ops))
        } else {
            None
        };
        instances.push(Instance {
            client_cbs: *rng.pick(&[1usize, 1, 8, 1000]),
            backpressure: rng.chance(1, 2),
            tasks,
            buffer,
        });
    }
    ClientPlan {
        focus: focus.to_owned(),
        knobs,
        channel_buffer_size: *rng.pick(&[1usize, 4, 1000, 1000]),
        instances,
    }
}

type Log = Arc<Mutex<Vec<(String, String, String)>>>; // (property, signature, detail)

fn bad(log: &Log, prop: &str, sig: &str, detail: String) {
    log.lock().expect("log").push((prop.into(), sig.into(), detail));
}

const CALL_TIMEOUT: Duration = Duration::from_secs(20);

macro_rules! call {
    ($log:expr, $what:expr, $f:expr) => {
        match tokio::time::timeout(CALL_TIMEOUT, $f).await {
            Ok(r) => Some(r),
            Err(_) => {
                bad(
                    $log,
                    "C20",
                    "a call on the client library never resolved",
                    format!("{} did not resolve within 20 simulated seconds", $what),
                );
                None
            }
        }
    };
}

struct Shared {
    counter_ok: Mutex<u64>,
    spub_tid: tokio::sync::OnceCell<u64>,
    unsub_checks: Mutex<Vec<(String, u64, bool, u64)>>, // (client id, tid, ls, seq when unsubscribe completed)
    buffered: Mutex<BTreeMap<String, (Vec<Value>, Vec<Value>)>>, // key -> (set_later values, publish_later values)
}

async fn run_task(
    wb: worterbuch_client::Worterbuch,
    inst: usize,
    t: usize,
    calls: Vec<Call>,
    log: Log,
    shared: Arc<Shared>,
    ishared: Arc<Shared>,
) {
    let ns = format!("i{inst}/t{t}");
    let key = |k: u8| format!("{ns}/k{k}");
    let mut expect: BTreeMap<String, (Value, u64)> = BTreeMap::new(); // value, cas version (0 = plain)
    let mut extra_children: std::collections::BTreeSet<String> = Default::default();
    let mut n = 0u64;
    let mut val = |what: &str| {
        n += 1;
        json!(format!("{what}-{inst}-{t}-{n}"))
    };
    for c in calls {
        match c {
            Call::Sleep { us } => tokio::time::sleep(Duration::from_micros(us)).await,
            Call::Set { k } => {
                let v = val("s");
                if let Some(r) = call!(&log, "set", wb.set_generic(key(k), v.clone())) {
                    match r {
                        Ok(()) => {
                            expect.insert(key(k), (v, 0));
                        }
                        Err(e) => bad(&log, "C20", "a call resolved with an answer that is not the server's answer to it", format!("set {}: {e}", key(k))),
                    }
                }
            }
            Call::SetAsync { k } => {
                let v = val("sa");
                if let Some(r) = call!(&log, "set_async", wb.set_generic_async(key(k), v.clone())) {
                    if r.is_ok() {
                        expect.insert(key(k), (v, 0));
                    }
                }
            }
            Call::Get { k } => {
                if let Some(r) = call!(&log, "get", wb.get_generic(key(k))) {
                    let want = expect.get(&key(k)).map(|e| e.0.clone());
                    match r {
                        Ok(got) if got == want => {}
                        other => bad(
                            &log,
                            "C20",
                            "a call resolved with an answer that is not the server's answer to it",
                            format!("get {} returned {other:?}, the server holds {want:?}", key(k)),
                        ),
                    }
                }
            }
            Call::CSet { k } => {
                let v = val("c");
                let cur = expect.get(&key(k)).map(|e| e.1).unwrap_or(0);
                if let Some(r) = call!(&log, "cset", wb.cset_generic(key(k), v.clone(), cur)) {
                    match r {
                        Ok(()) => {
                            expect.insert(key(k), (v, cur + 1));
                        }
                        Err(e) => bad(&log, "C20", "a call resolved with an answer that is not the server's answer to it", format!("cset {} v{cur}: {e}", key(k))),
                    }
                }
            }
            Call::CGet { k } => {
                if let Some(r) = call!(&log, "cget", wb.cget_generic(key(k))) {
                    let want = expect.get(&key(k)).cloned();
                    match r {
                        Ok(got) if got == want => {}
                        other => bad(
                            &log,
                            "C20",
                            "a call resolved with an answer that is not the server's answer to it",
                            format!("cget {} returned {other:?}, expected {want:?}", key(k)),
                        ),
                    }
                }
            }
            Call::PGet => {
                if let Some(r) = call!(&log, "pget", wb.pget_generic(format!("{ns}/?"))) {
                    let want: BTreeMap<String, Value> = expect.iter().map(|(k, v)| (k.clone(), v.0.clone())).collect();
                    match r {
                        Ok(kvs) => {
                            let got: BTreeMap<String, Value> = kvs.into_iter().map(|kv| (kv.key, kv.value)).collect();
                            if got != want {
                                bad(&log, "C20", "a call resolved with an answer that is not the server's answer to it", format!("pget {ns}/#: {got:?} vs {want:?}"));
                            }
                        }
                        Err(e) => bad(&log, "C20", "a call resolved with an answer that is not the server's answer to it", format!("pget: {e}")),
                    }
                }
            }
            Call::Delete { k } => {
                if let Some(r) = call!(&log, "delete", wb.delete_generic(key(k))) {
                    let want = expect.remove(&key(k)).map(|e| e.0);
                    match r {
                        Ok(got) if got == want => {}
                        other => bad(&log, "C20", "a call resolved with an answer that is not the server's answer to it", format!("delete {} returned {other:?}, expected {want:?}", key(k))),
                    }
                }
            }
            Call::PDeleteQuiet { k } => {
                if let Some(r) = call!(&log, "pdelete", wb.pdelete_generic(key(k), true)) {
                    expect.remove(&key(k));
                    match r {
                        Ok(kvs) if kvs.is_empty() => {}
                        other => bad(&log, "C20", "a call resolved with an answer that is not the server's answer to it", format!("quiet pdelete returned {other:?}")),
                    }
                }
            }
            Call::Ls => {
                if let Some(r) = call!(&log, "ls", wb.ls(Some(ns.clone()))) {
                    let mut want: std::collections::BTreeSet<String> =
                        expect.keys().map(|k| k.rsplit('/').next().unwrap_or("").to_owned()).collect();
                    want.extend(extra_children.iter().cloned());
                    match r {
                        Ok(ch) => {
                            let got: std::collections::BTreeSet<String> = ch.into_iter().collect();
                            if got != want {
                                bad(&log, "C20", "a call resolved with an answer that is not the server's answer to it", format!("ls {ns}: {got:?} vs {want:?}"));
                            }
                        }
                        Err(_) if want.is_empty() => {}
                        Err(e) => bad(&log, "C20", "a call resolved with an answer that is not the server's answer to it", format!("ls {ns}: {e}")),
                    }
                }
            }
            Call::PublishToSelf { k } => {
                let kk = format!("{ns}/pub{k}");
                let Some(Ok((mut rx, tid))) = call!(&log, "subscribe", wb.subscribe_generic(kk.clone(), false, true)) else { continue };
                let v = val("p");
                if let Some(r) = call!(&log, "publish", wb.publish_generic(kk.clone(), v.clone())) {
                    if let Err(e) = r {
                        bad(&log, "C20", "a call resolved with an answer that is not the server's answer to it", format!("publish: {e}"));
                    }
                }
                match tokio::time::timeout(CALL_TIMEOUT, rx.recv()).await {
                    Ok(Some(Some(got))) if got == v => {}
                    other => bad(&log, "C20", "a published value did not reach the subscriber of its key", format!("{kk}: {other:?}")),
                }
                let _ = call!(&log, "unsubscribe", wb.unsubscribe(tid));
            }
            Call::SubCycle { k, psub, variant } => {
                let kk = key(k);
                let v1 = val("e");
                let v2 = val("e");
                let tid;
                if psub {
                    let Some(Ok((mut rx, t))) = call!(&log, "psubscribe", wb.psubscribe_generic(kk.clone(), false, true, None)) else { continue };
                    tid = t;
                    let _ = call!(&log, "set", wb.set_generic(kk.clone(), v1.clone()));
                    expect.insert(kk.clone(), (v1.clone(), 0));
                    match tokio::time::timeout(CALL_TIMEOUT, rx.recv()).await {
                        Ok(Some(PStateEvent::KeyValuePairs(kvs))) if kvs.len() == 1 && kvs[0].value == v1 => {}
                        other => bad(&log, "C20", "a subscription of the client library did not deliver the change of its key", format!("{kk}: {other:?}")),
                    }
                } else {
                    let Some(Ok((mut rx, t))) = call!(&log, "subscribe", wb.subscribe_generic(kk.clone(), false, true)) else { continue };
                    tid = t;
                    let _ = call!(&log, "set", wb.set_generic(kk.clone(), v1.clone()));
                    expect.insert(kk.clone(), (v1.clone(), 0));
                    match tokio::time::timeout(CALL_TIMEOUT, rx.recv()).await {
                        Ok(Some(Some(got))) if got == v1 => {}
                        other => bad(&log, "C20", "a subscription of the client library did not deliver the change of its key", format!("{kk}: {other:?}")),
                    }
                }
                if variant == 0 {
                    if let Some(Err(e)) = call!(&log, "unsubscribe", wb.unsubscribe(tid)) {
                        bad(&log, "C20", "a call resolved with an answer that is not the server's answer to it", format!("unsubscribe {tid}: {e}"));
                    }
                } else {
                    let _ = call!(&log, "unsubscribe_async", wb.unsubscribe_async(tid));
                    // a later awaited call is answered after the fire-and-forget one was processed
                    let _ = call!(&log, "get", wb.get_generic(kk.clone()));
                }
                let seq = simcore::ctx::seq();
                ishared.unsub_checks.lock().expect("u").push((wb.client_id().to_owned(), tid, false, seq));
                let _ = call!(&log, "set", wb.set_generic(kk.clone(), v2.clone()));
                expect.insert(kk, (v2, 0));
            }
            Call::AsyncSubCycle { k, kind, variant } => {
                let kk = key(k);
                let parent = format!("{ns}/ls");
                let tid = match kind {
                    0 => call!(&log, "subscribe_async", wb.subscribe_async(kk.clone(), false, true)),
                    1 => call!(&log, "psubscribe_async", wb.psubscribe_async(kk.clone(), false, true, None)),
                    _ => call!(&log, "subscribe_ls_async", wb.subscribe_ls_async(Some(parent.clone()))),
                };
                let Some(Ok(tid)) = tid else { continue };
                // an awaited call is answered after the fire-and-forget one was processed
                let _ = call!(&log, "get", wb.get_generic(kk.clone()));
                let is_ls = kind >= 2;
                if variant == 0 {
                    let r = if is_ls {
                        call!(&log, "unsubscribe_ls", wb.unsubscribe_ls(tid))
                    } else {
                        call!(&log, "unsubscribe", wb.unsubscribe(tid))
                    };
                    if let Some(Err(e)) = r {
                        bad(&log, "C20", "a call resolved with an answer that is not the server's answer to it", format!("unsubscribe of the fire-and-forget subscription {tid}: {e}"));
                    }
                } else {
                    if is_ls {
                        let _ = call!(&log, "unsubscribe_ls_async", wb.unsubscribe_ls_async(tid));
                    } else {
                        let _ = call!(&log, "unsubscribe_async", wb.unsubscribe_async(tid));
                    }
                    let _ = call!(&log, "get", wb.get_generic(kk.clone()));
                }
                let seq = simcore::ctx::seq();
                ishared.unsub_checks.lock().expect("u").push((wb.client_id().to_owned(), tid, is_ls, seq));
            }
            Call::LsSubCycle { variant } => {
                let parent = format!("{ns}/ls");
                extra_children.insert("ls".to_owned());
                let Some(Ok((mut rx, tid))) = call!(&log, "subscribe_ls", wb.subscribe_ls(Some(parent.clone()))) else { continue };
                let _ = tokio::time::timeout(CALL_TIMEOUT, rx.recv()).await; // initial list
                let c1 = format!("c{}", val("x").as_str().unwrap_or("").replace('-', "_"));
                let _ = call!(&log, "set", wb.set_generic(format!("{parent}/{c1}"), json!(1)));
                match tokio::time::timeout(CALL_TIMEOUT, rx.recv()).await {
                    Ok(Some(list)) if list.contains(&c1) => {}
                    other => bad(&log, "C20", "an ls-subscription of the client library did not deliver the new child", format!("{parent}: {other:?}")),
                }
                if variant == 0 {
                    if let Some(Err(e)) = call!(&log, "unsubscribe_ls", wb.unsubscribe_ls(tid)) {
                        bad(&log, "C20", "a call resolved with an answer that is not the server's answer to it", format!("unsubscribe_ls {tid}: {e}"));
                    }
                } else {
                    let _ = call!(&log, "unsubscribe_ls_async", wb.unsubscribe_ls_async(tid));
                    let _ = call!(&log, "get", wb.get_generic(format!("{parent}/{c1}")));
                }
                let seq = simcore::ctx::seq();
                ishared.unsub_checks.lock().expect("u").push((wb.client_id().to_owned(), tid, true, seq));
                let c2 = format!("c{}", val("x").as_str().unwrap_or("").replace('-', "_"));
                let _ = call!(&log, "set", wb.set_generic(format!("{parent}/{c2}"), json!(2)));
            }
            Call::Lock { k } => {
                let kk = format!("{ns}/lock{k}");
                if let Some(r) = call!(&log, "lock", wb.lock(kk.clone())) {
                    if let Err(e) = r {
                        bad(&log, "C20", "a call resolved with an answer that is not the server's answer to it", format!("lock {kk}: {e}"));
                    }
                }
                if let Some(r) = call!(&log, "release_lock", wb.release_lock(kk.clone())) {
                    if let Err(e) = r {
                        bad(&log, "C20", "a call resolved with an answer that is not the server's answer to it", format!("release {kk}: {e}"));
                    }
                }
            }
            Call::UpdateShared => {
                if let Some(r) = call!(&log, "update", wb.update::<i64, _, _>("shared/counter".to_owned(), || 0, |v| *v += 1)) {
                    if r.is_ok() {
                        *shared.counter_ok.lock().expect("c") += 1;
                    }
                }
            }
            Call::SPubShared => {
                let tid = ishared
                    .spub_tid
                    .get_or_init(|| async {
                        match tokio::time::timeout(CALL_TIMEOUT, wb.spub_init(format!("i{inst}/stream"))).await {
                            Ok(Ok(t)) => t,
                            _ => u64::MAX,
                        }
                    })
                    .await;
                if *tid != u64::MAX {
                    let v = val("sp");
                    if let Some(r) = call!(&log, "spub (stream shared by several tasks)", wb.spub_generic(*tid, v)) {
                        if let Err(e) = r {
                            let es = format!("{e}");
                            if es.contains("channel closed") {
                                bad(&log, "C20", "concurrent spub calls on one publish stream: one caller's acknowledgement callback is overwritten and its call fails", format!("spub: {e}"));
                            } else {
                                bad(&log, "C20", "a call resolved with an answer that is not the server's answer to it", format!("spub: {e}"));
                            }
                        }
                    }
                }
            }
        }
    }
    // final: what the task believes equals what the server holds (checked by the caller through the API)
    let mut g = ishared.buffered.lock().expect("b");
    for (k, (v, ver)) in expect {
        g.insert(format!("\u{0}expect:{k}"), (vec![v, json!(ver)], vec![]));
    }
}

pub async fn run(plan: ClientPlan) -> Outcome {
    let mut out = Outcome::default();
    let cbs = plan.channel_buffer_size;
    let server = match harness::start_server("wb", move |c| {
        c.channel_buffer_size = cbs;
        c.extended_monitoring = false;
    })
    .await
    {
        Ok(s) => s,
        Err(e) => {
            out.violate("C20", "startup", "server did not start", e);
            return out;
        }
    };
    // witness of everything the server applies / publishes
    let wid = ClientId::from_u128(0xffff_ffff_ffff_ffff_ffff_ffff_ffff_fff0);
    let Ok((mut wrx, _)) = server.api.psubscribe(wid, 1, "#".to_owned(), false, true).await else {
        out.inconclusive = true;
        return out;
    };
    let witness: Arc<Mutex<Vec<(u64, bool, String, Value)>>> = Arc::new(Mutex::new(vec![]));
    let w2 = witness.clone();
    let wt = tokio::spawn(async move {
        while let Some(ev) = wrx.recv().await {
            let seq = simcore::ctx::seq();
            let (del, kvs) = match ev {
                PStateEvent::KeyValuePairs(k) => (false, k),
                PStateEvent::Deleted(k) => (true, k),
            };
            for kv in kvs {
                if !kv.key.starts_with("$SYS") {
                    w2.lock().expect("w").push((seq, del, kv.key, kv.value));
                }
            }
        }
    });
    let log: Log = Arc::new(Mutex::new(vec![]));
    let shared = Arc::new(Shared {
        counter_ok: Mutex::new(0),
        spub_tid: tokio::sync::OnceCell::new(),
        unsub_checks: Mutex::new(vec![]),
        buffered: Mutex::new(BTreeMap::new()),
    });
    let mut inst_handles = vec![];
    let mut ishareds = vec![];
    let all_msgs: Arc<Mutex<Vec<(usize, u64, SM)>>> = Arc::new(Mutex::new(vec![]));
    let mut max_delay = 0u64;
    for (ii, inst) in plan.instances.iter().enumerate() {
        let node = simcore::ctx::add_node(&format!("client{ii}"), std::path::PathBuf::new());
        let ishared = Arc::new(Shared {
            counter_ok: Mutex::new(0),
            spub_tid: tokio::sync::OnceCell::new(),
            unsub_checks: Mutex::new(vec![]),
            buffered: Mutex::new(BTreeMap::new()),
        });
        ishareds.push(ishared.clone());
        let inst = inst.clone();
        let path = server.unix_path.clone();
        let log2 = log.clone();
        let shared2 = shared.clone();
        let msgs = all_msgs.clone();
        if let Some((d, _)) = &inst.buffer {
            max_delay = max_delay.max(*d);
        }
        inst_handles.push(simcore::chaos::spawn_on(node, async move {
            let mut cfg = worterbuch_client::config::Config::with_servers(
                "unix".to_owned(),
                vec!["127.0.0.1:1".parse().expect("addr")].into(),
            );
            cfg.socket_path = Some(path);
            cfg.channel_buffer_size = inst.client_cbs;
            cfg.use_backpressure = inst.backpressure;
            cfg.auth_token = None;
            cfg.send_timeout = None;
            let mut conn = None;
            for _ in 0..200 {
                match worterbuch_client::connect(cfg.clone()).await {
                    Ok(c) => {
                        conn = Some(c);
                        break;
                    }
                    Err(_) => tokio::time::sleep(Duration::from_millis(10)).await,
                }
            }
            let Some((wb, _on_disconnect)) = conn else {
                bad(&log2, "C20", "the client library could not connect", format!("instance {ii}"));
                return None;
            };
            if let Ok(mut rx) = wb.all_messages().await {
                let m2 = msgs.clone();
                tokio::spawn(async move {
                    while let Some(m) = rx.recv().await {
                        let seq = simcore::ctx::seq();
                        m2.lock().expect("m").push((ii, seq, m));
                    }
                });
            }
            let mut hs = vec![];
            for (ti, calls) in inst.tasks.iter().enumerate() {
                hs.push(tokio::spawn(run_task(
                    wb.clone(),
                    ii,
                    ti,
                    calls.clone(),
                    log2.clone(),
                    shared2.clone(),
                    ishared.clone(),
                )));
            }
            if let Some((delay, ops)) = &inst.buffer {
                let buf = wb.send_buffer(Duration::from_micros(*delay)).await;
                let is = ishared.clone();
                let ops = ops.clone();
                hs.push(tokio::spawn(async move {
                    let mut n = 0;
                    for op in ops {
                        n += 1;
                        match op {
                            BufOp::Sleep { us } => tokio::time::sleep(Duration::from_micros(us)).await,
                            BufOp::SetLater { k } => {
                                let key = format!("i{ii}/buf/k{k}");
                                let v = json!(format!("bs-{ii}-{n}"));
                                is.buffered.lock().expect("b").entry(key.clone()).or_default().0.push(v.clone());
                                let _ = tokio::time::timeout(CALL_TIMEOUT, buf.set_later(key, v)).await;
                            }
                            BufOp::PublishLater { k } => {
                                let key = format!("i{ii}/buf/k{k}");
                                let v = json!(format!("bp-{ii}-{n}"));
                                is.buffered.lock().expect("b").entry(key.clone()).or_default().1.push(v.clone());
                                let _ = tokio::time::timeout(CALL_TIMEOUT, buf.publish_later(key, v)).await;
                            }
                        }
                    }
                }));
            }
            for h in hs {
                let _ = h.await;
            }
            Some(wb)
        }));
    }
    let mut keep = vec![];
    let deadline = tokio::time::Instant::now() + Duration::from_secs(900);
    for h in inst_handles {
        match tokio::time::timeout_at(deadline, h).await {
            Ok(Ok(w)) => keep.push(w),
            _ => out.inconclusive = true,
        }
    }
    if !harness::quiesce(&plan.knobs, max_delay * 2 + 50_000).await {
        out.inconclusive = true;
    }
    if let Some(d) = server.death() {
        out.violate("C17", "server-death", &crate::scen_wire::death_signature(&d), d);
        return out;
    }

    // ---- oracles over what the server holds
    let total_updates = *shared.counter_ok.lock().expect("c");
    if total_updates > 0 {
        match server.api.cget("shared/counter".to_owned()).await {
            Ok((v, ver)) => {
                if v != json!(total_updates as i64) || ver != total_updates {
                    out.violate(
                        "C02",
                        "lost-update",
                        "an acknowledged update made through the client library's update() is not reflected in the final value",
                        format!("{total_updates} acknowledged increments, counter = {v} (version {ver})"),
                    );
                }
                out.probe_n("shared_counter_updates", total_updates);
            }
            Err(e) => out.violate("C02", "lost-update", "an acknowledged update made through the client library's update() is not reflected in the final value", format!("{e}")),
        }
    }
    let wit = witness.lock().expect("w").clone();
    for (ii, is) in ishareds.iter().enumerate() {
        let buffered = is.buffered.lock().expect("b").clone();
        for (k, (sets, pubs)) in buffered {
            if let Some(key) = k.strip_prefix("\u{0}expect:") {
                let want_v = sets[0].clone();
                let want_ver = sets[1].as_u64().unwrap_or(0);
                match server.api.cget(key.to_owned()).await {
                    Ok((v, ver)) if v == want_v && ver == want_ver => {}
                    other => out.violate(
                        "C20",
                        "final-state",
                        "typed results of the client library differ from what the server holds",
                        format!("{key}: task believes {want_v} (v{want_ver}), server says {:?}", other.map_err(|e| format!("{e}"))),
                    ),
                }
                continue;
            }
            // everything the server saw for this key, in order
            let seen: Vec<&Value> = wit.iter().filter(|(_, del, kk, _)| !*del && kk == &k).map(|(_, _, _, v)| v).collect();
            let allowed: Vec<&Value> = sets.iter().chain(pubs.iter()).collect();
            for v in &seen {
                if !allowed.contains(v) {
                    out.violate("C20", "buffer-foreign-value", "the send buffer sent a value that was never handed to it", format!("{k}: {v}"));
                }
            }
            out.probe("buffered_keys_checked");
            if let Some(last) = sets.last() {
                let stored = server.api.get(k.clone()).await.ok();
                if stored.as_ref() != Some(last) {
                    out.violate(
                        "C20",
                        "buffer-set-lost",
                        "a value handed to set_later was never sent (the server does not hold the latest buffered value)",
                        format!("{k}: buffered {sets:?}, publish_later on the same key {pubs:?}, server holds {stored:?}, server saw {seen:?}"),
                    );
                }
                // order: the values the server saw for sets are a subsequence of the buffered ones
                let seen_sets: Vec<&Value> = seen.iter().filter(|v| sets.contains(v)).cloned().collect();
                let mut idx = 0;
                for v in seen_sets {
                    match sets.iter().skip(idx).position(|x| x == v) {
                        Some(p) => idx += p + 1,
                        None => out.violate("C20", "buffer-order", "buffered values were sent out of buffering order", format!("{k}: {seen:?} vs {sets:?}")),
                    }
                }
            }
            if let Some(last) = pubs.last() {
                if !seen.contains(&last) {
                    out.violate(
                        "C20",
                        "buffer-publish-lost",
                        "a value handed to publish_later was never published",
                        format!("{k}: buffered for publish {pubs:?}, server saw {seen:?}"),
                    );
                }
            }
        }
        // unsubscribe variants: the server must no longer hold the subscription, and nothing with
        // that id may arrive once the unsubscribe has been processed
        let checks = is.unsub_checks.lock().expect("u").clone();
        let msgs = all_msgs.lock().expect("m").clone();
        for (cid, tid, ls, seq) in checks {
            let Ok(uuid) = cid.parse::<ClientId>() else { continue };
            out.probe("unsubscribes_checked");
            let r = if ls {
                server.api.unsubscribe_ls(uuid, tid).await
            } else {
                server.api.unsubscribe(uuid, tid).await
            };
            match r {
                Err(WorterbuchError::NotSubscribed) => {}
                Ok(()) => out.violate(
                    "C20",
                    "unsubscribe-ineffective",
                    if ls {
                        "after unsubscribe_ls the server still holds the ls-subscription"
                    } else {
                        "after unsubscribe the server still holds the subscription"
                    },
                    format!("instance {ii} subscription {tid}"),
                ),
                Err(e) => out.violate("C20", "unsubscribe-check", "server error while checking a subscription", format!("{e}")),
            }
            let _ = (&msgs, seq, Ev::Mark { seq: 0, label: String::new() });
        }
    }
    for (p, s, d) in log.lock().expect("log").iter() {
        out.violate(p, "client-call", s, d.clone());
    }
    let calls: usize = plan.instances.iter().map(|i| i.tasks.iter().map(|t| t.len()).sum::<usize>()).sum();
    out.nontrivial = plan.instances.iter().any(|i| i.tasks.len() >= 2) && calls >= 6;
    out.probe_n("client_calls", calls as u64);
    out.probe_n("server_messages_seen_by_clients", all_msgs.lock().expect("m").len() as u64);
    if !out.violations.is_empty() {
        out.sample = Some(json!({"instances": plan.instances.len(), "witness_events": wit.len()}));
    }
    drop(keep);
    wt.abort();
    out
}

pub fn shrink(plan: &ClientPlan) -> Vec<ClientPlan> {
    let mut out = vec![];
    if plan.instances.len() > 1 {
        for i in 0..plan.instances.len() {
            let mut p = plan.clone();
            p.instances.remove(i);
            out.push(p);
        }
    }
    for (ii, inst) in plan.instances.iter().enumerate() {
        if inst.tasks.len() > 1 || (inst.tasks.len() == 1 && inst.buffer.is_some()) {
            for t in 0..inst.tasks.len() {
                let mut p = plan.clone();
                p.instances[ii].tasks.remove(t);
                out.push(p);
            }
        }
        if inst.buffer.is_some() {
            let mut p = plan.clone();
            p.instances[ii].buffer = None;
            out.push(p);
            if let Some((_, ops)) = &inst.buffer {
                for oi in 0..ops.len() {
                    let mut p = plan.clone();
                    if let Some((_, o)) = p.instances[ii].buffer.as_mut() {
                        o.remove(oi);
                    }
                    out.push(p);
                }
            }
        }
        for (ti, t) in inst.tasks.iter().enumerate() {
            if t.len() > 1 {
                let mut p = plan.clone();
                p.instances[ii].tasks[ti].truncate(t.len() / 2);
                out.push(p);
                for ci in 0..t.len().min(10) {
                    let mut p = plan.clone();
                    p.instances[ii].tasks[ti].remove(ci);
                    out.push(p);
                }
            }
        }
    }
    if plan.knobs != KnobSpec::calm() {
        let mut p = plan.clone();
        p.knobs = KnobSpec::calm();
        out.push(p);
    }
    out
}
