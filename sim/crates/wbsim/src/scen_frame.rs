//! C14, stream surface: `write_line_and_flush` (1024-byte chunks, partial-write loop, per-write
//! timeout) feeding `receive_msg` / `Lines::next_line` on the other side of a simulated stream with
//! short writes down to one byte, splits inside UTF-8 sequences, `Pending`, stalls that trigger the
//! send timeout, and a reader that is cancelled and re-polled (as the client's `select!` does).

use crate::harness::{KnobSpec, Outcome};
use serde::{Deserialize, Serialize};
use serde_json::{Value, json};
use simcore::Rng;
use std::time::Duration;
use tokio::io::{AsyncBufReadExt, BufReader};
use worterbuch_common::{ClientMessage, ServerMessage, receive_msg, write_line_and_flush};

#[derive(Clone, Debug, Serialize, Deserialize, PartialEq)]
pub struct StreamPlan {
    /// "client" | "server"
    pub kind: String,
    /// messages as JSON (deserialised into the typed message before sending)
    pub msgs: Vec<Value>,
    pub send_timeout_ms: Option<u64>,
    /// reader pauses for `.1` µs after having received `.0` messages
    pub reader_stall: Option<(usize, u64)>,
    /// reader polls `next_line` inside a `select!` with a short timer and re-polls after the timer wins
    pub reader_cancel_us: Option<u64>,
}

#[derive(Clone, Debug, Serialize, Deserialize, PartialEq)]
pub struct FramePlan {
    pub knobs: KnobSpec,
    pub streams: Vec<StreamPlan>,
}

fn payload(rng: &mut Rng, depth: u32) -> Value {
    match rng.below(16) {
        0 => Value::Null,
        1 => json!(u64::MAX),
        2 => json!(i64::MIN),
        3 => json!(1e300),
        4 => json!(0.1),
        5 => json!("line\nbreak\r\n and \u{2028} separators / ? # $SYS"),
        6 => json!("üñí©ødé 𝄞 \u{0}\u{7f}"),
        7 => json!(""),
        8 => json!(true),
        9 if depth < 3 => json!({"transactionId": payload(rng, depth + 1), "key": "k", "value": payload(rng, depth + 1), "keyValuePairs": [], "deleted": payload(rng, depth + 1)}),
        10 if depth < 3 => json!([payload(rng, depth + 1), payload(rng, depth + 1)]),
        11 if depth < 3 => json!({"Cas": [payload(rng, depth + 1), 7]}),
        12 => json!("x".repeat(rng.range(900, 3000) as usize)),
        13 => json!(-0.0),
        _ => json!(format!("v{}", rng.below(1000))),
    }
}

fn keyish(rng: &mut Rng) -> String {
    match rng.below(6) {
        0 => "".into(),
        1 => "ü/ß/日本".into(),
        2 => "a//b/".into(),
        3 => "?/#".into(),
        4 => "k".repeat(rng.range(1, 2000) as usize),
        _ => crate::wgen::key(rng, 4),
    }
}

fn tid(rng: &mut Rng) -> u64 {
    *rng.pick(&[0u64, 1, 2, 4_294_967_296, u64::MAX, u64::MAX - 1, 42])
}

fn client_msg(rng: &mut Rng) -> Value {
    let t = tid(rng);
    match rng.below(18) {
        0 => json!({"get": {"transactionId": t, "key": keyish(rng)}}),
        1 => json!({"cGet": {"transactionId": t, "key": keyish(rng)}}),
        2 => json!({"pGet": {"transactionId": t, "requestPattern": keyish(rng)}}),
        3 => json!({"set": {"transactionId": t, "key": keyish(rng), "value": payload(rng, 0)}}),
        4 => json!({"cSet": {"transactionId": t, "key": keyish(rng), "value": payload(rng, 0), "version": tid(rng)}}),
        5 => json!({"sPubInit": {"transactionId": t, "key": keyish(rng)}}),
        6 => json!({"sPub": {"transactionId": t, "value": payload(rng, 0)}}),
        7 => json!({"publish": {"transactionId": t, "key": keyish(rng), "value": payload(rng, 0)}}),
        8 => json!({"subscribe": {"transactionId": t, "key": keyish(rng), "unique": rng.chance(1, 2), "liveOnly": rng.chance(1, 2)}}),
        9 => json!({"pSubscribe": {"transactionId": t, "requestPattern": keyish(rng), "unique": rng.chance(1, 2), "aggregateEvents": tid(rng)}}),
        10 => json!({"unsubscribe": {"transactionId": t}}),
        11 => json!({"delete": {"transactionId": t, "key": keyish(rng)}}),
        12 => json!({"pDelete": {"transactionId": t, "requestPattern": keyish(rng), "quiet": if rng.chance(1, 2) { json!(true) } else { Value::Null }}}),
        13 => json!({"ls": {"transactionId": t, "parent": if rng.chance(1, 2) { json!(keyish(rng)) } else { Value::Null }}}),
        14 => json!({"lock": {"transactionId": t, "key": keyish(rng)}}),
        15 => json!({"authorizationRequest": {"authToken": "a.b.c\n"}}),
        16 => json!({"protocolSwitchRequest": {"version": 1}}),
        _ => json!({"transform": {"transactionId": t, "key": keyish(rng), "template": payload(rng, 0)}}),
    }
}

fn server_msg(rng: &mut Rng) -> Value {
    let t = tid(rng);
    let kvs = |rng: &mut Rng| -> Value {
        let n = rng.range(0, 4);
        Value::Array((0..n).map(|_| json!({"key": keyish(rng), "value": payload(rng, 0)})).collect())
    };
    match rng.below(10) {
        0 => json!({"ack": {"transactionId": t}}),
        1 => json!({"state": {"transactionId": t, "value": payload(rng, 0)}}),
        2 => json!({"state": {"transactionId": t, "deleted": payload(rng, 0)}}),
        3 => json!({"cState": {"transactionId": t, "value": payload(rng, 0), "version": tid(rng)}}),
        4 => json!({"pState": {"transactionId": t, "requestPattern": keyish(rng), "keyValuePairs": kvs(rng)}}),
        5 => json!({"pState": {"transactionId": t, "requestPattern": keyish(rng), "deleted": kvs(rng)}}),
        6 => json!({"err": {"transactionId": t, "errorCode": *rng.pick(&[0u8, 5, 18, 25, 255]), "metadata": "meta\n\"data\""}}),
        7 => json!({"lsState": {"transactionId": t, "children": ["a", "", "ü", "with space", "\n"]}}),
        8 => json!({"authorized": {"transactionId": 0}}),
        _ => json!({"welcome": {"info": {"version": "1.2.3", "supportedProtocolVersions": [[0, 11], [1, 1]], "protocolVersion": "0.11", "authorizationRequired": true}, "clientId": "id"}}),
    }
}

pub fn gen_plan(rng: &mut Rng, thorough: bool) -> FramePlan {
    let mut knobs = KnobSpec::draw(rng);
    knobs.p_frag = *rng.pick(&[300u32, 700, 1000]);
    knobs.frag_max = *rng.pick(&[1usize, 1, 2, 7, 100, 1500]);
    knobs.p_io_pending = *rng.pick(&[0u32, 100, 500]);
    knobs.pipe_capacity = *rng.pick(&[1usize, 16, 100, 1024, 1 << 16]);
    let n = rng.range(1, 3) as usize;
    let mut streams = vec![];
    for _ in 0..n {
        let kind = if rng.chance(1, 2) { "client" } else { "server" };
        let count = rng.range(1, if thorough { 30 } else { 12 }) as usize;
        let msgs = (0..count)
            .map(|_| if kind == "client" { client_msg(rng) } else { server_msg(rng) })
            .collect();
        let timeout = if rng.chance(1, 3) { Some(*rng.pick(&[1u64, 10, 1000])) } else { None };
        streams.push(StreamPlan {
            kind: kind.into(),
            msgs,
            send_timeout_ms: timeout,
            reader_stall: if rng.chance(1, 3) {
                Some((rng.below(count as u64) as usize, *rng.pick(&[500u64, 20_000, 3_000_000])))
            } else {
                None
            },
            reader_cancel_us: if rng.chance(1, 2) { Some(*rng.pick(&[1u64, 50, 1000])) } else { None },
        });
    }
    FramePlan { knobs, streams }
}

/// object members that are `null` and members that are absent mean the same for optional fields
fn strip_nulls(v: &Value) -> Value {
    match v {
        Value::Object(o) => Value::Object(
            o.iter()
                .filter(|(_, x)| !x.is_null())
                .map(|(k, x)| (k.clone(), strip_nulls(x)))
                .collect(),
        ),
        Value::Array(a) => Value::Array(a.iter().map(strip_nulls).collect()),
        other => other.clone(),
    }
}

/// the decoded message, encoded again, is the document it was decoded from (the value-space half
/// of the property riding along: ids, versions and payloads at the limits of their types)
fn value_round_trip(bad: &mut Vec<(String, String, String)>, doc: &Value, again: Option<Value>) {
    let Some(again) = again else {
        bad.push(("C14".into(), "a decoded message cannot be encoded again".into(), shorten(&doc.to_string())));
        return;
    };
    // the payload of a message ("value", key/value pairs) is arbitrary JSON and must survive as
    // it is; only the envelope's optional members may be dropped when they are null
    let (a, b) = (strip_nulls(doc), strip_nulls(&again));
    if a != b {
        bad.push((
            "C14".into(),
            "a message decoded and encoded again differs from the original".into(),
            format!("{} became {}", shorten(&doc.to_string()), shorten(&again.to_string())),
        ));
    }
}

fn shorten(s: &str) -> String {
    if s.len() > 300 {
        let mut e = 300;
        while !s.is_char_boundary(e) {
            e -= 1;
        }
        format!("{}…", &s[..e])
    } else {
        s.to_owned()
    }
}

async fn one_stream(i: usize, sp: StreamPlan) -> Vec<(String, String, String)> {
    let mut bad = vec![];
    let path = crate::harness::run_dir().join(format!("frame{i}.sock"));
    let listener = match simcore::net::UnixListener::bind(&path) {
        Ok(l) => l,
        Err(e) => return vec![("C14".into(), "harness".into(), format!("{e}"))],
    };
    let p2 = path.clone();
    let connect = tokio::spawn(async move { simcore::net::connect_unix(&p2).await });
    let Ok((srv, _)) = listener.accept().await else { return bad };
    let Ok(Ok(cli)) = connect.await else { return bad };
    let (r, _w_unused) = cli.into_halves();
    let w = srv.into_sim();
    let (_r_unused, mut w) = w.into_halves();
    // typed messages
    let client_kind = sp.kind == "client";
    let mut typed_c: Vec<ClientMessage> = vec![];
    let mut typed_s: Vec<ServerMessage> = vec![];
    for m in &sp.msgs {
        if client_kind {
            // every generated document is a well-formed message of the protocol by construction:
            // the decoder under test refusing one is a finding, not a reason to skip it
            match serde_json::from_str::<ClientMessage>(&m.to_string()) {
                Ok(t) => {
                    value_round_trip(&mut bad, m, serde_json::to_value(&t).ok());
                    typed_c.push(t)
                }
                Err(e) => bad.push(("C14".into(), "a well-formed message is rejected by the decoder".into(), format!("client message {} is rejected by the decoder: {e}", shorten(&m.to_string())))),
            }
        } else {
            match serde_json::from_str::<ServerMessage>(&m.to_string()) {
                Ok(t) => {
                    value_round_trip(&mut bad, m, serde_json::to_value(&t).ok());
                    typed_s.push(t)
                }
                Err(e) => bad.push(("C14".into(), "a well-formed message is rejected by the decoder".into(), format!("server message {} is rejected by the decoder: {e}", shorten(&m.to_string())))),
            }
        }
    }
    let n_msgs = if client_kind { typed_c.len() } else { typed_s.len() };
    let timeout = sp.send_timeout_ms.map(Duration::from_millis);
    let tc = typed_c.clone();
    let ts = typed_s.clone();
    // writer: the real partial-write loop
    let writer = simcore::chaos::spawn_on(simcore::HARNESS, async move {
        let mut sent = 0usize;
        let mut err = None;
        for k in 0..n_msgs {
            let r = if client_kind {
                write_line_and_flush(&tc[k], &mut w, timeout, "peer").await
            } else {
                write_line_and_flush(&ts[k], &mut w, timeout, "peer").await
            };
            match r {
                Ok(()) => sent += 1,
                Err(e) => {
                    err = Some(format!("{e}"));
                    break;
                }
            }
        }
        drop(w);
        (sent, err)
    });
    // reader: the real line reader / decoder
    let stall = sp.reader_stall;
    let cancel = sp.reader_cancel_us;
    let reader = simcore::chaos::spawn_on(simcore::HARNESS, async move {
        let mut lines = BufReader::new(r).lines();
        let mut got_c: Vec<ClientMessage> = vec![];
        let mut got_s: Vec<ServerMessage> = vec![];
        let mut decode_errors = 0usize;
        loop {
            let n = got_c.len() + got_s.len();
            if let Some((after, us)) = stall {
                if n == after {
                    tokio::time::sleep(Duration::from_micros(us)).await;
                }
            }
            macro_rules! recv {
                ($t:ty) => {{
                    loop {
                        if let Some(c) = cancel {
                            tokio::select! {
                                biased;
                                m = receive_msg::<$t, _>(&mut lines) => break m,
                                _ = tokio::time::sleep(Duration::from_micros(c)) => { simcore::ctx::count("reader_cancelled_and_repolled"); continue; }
                            }
                        } else {
                            break receive_msg::<$t, _>(&mut lines).await;
                        }
                    }
                }};
            }
            if client_kind {
                match recv!(ClientMessage) {
                    Ok(Some(m)) => got_c.push(m),
                    Ok(None) => break,
                    Err(_) => {
                        decode_errors += 1;
                        if decode_errors > 3 {
                            break;
                        }
                    }
                }
            } else {
                match recv!(ServerMessage) {
                    Ok(Some(m)) => got_s.push(m),
                    Ok(None) => break,
                    Err(_) => {
                        decode_errors += 1;
                        if decode_errors > 3 {
                            break;
                        }
                    }
                }
            }
        }
        (got_c, got_s, decode_errors)
    });
    let (sent, err) = writer.await.unwrap_or((0, Some("writer panicked".into())));
    let Ok((got_c, got_s, decode_errors)) = tokio::time::timeout(Duration::from_secs(3600), reader).await.unwrap_or(Ok((vec![], vec![], 99))) else {
        return bad;
    };
    let got_n = got_c.len() + got_s.len();
    // every message reported as sent arrives exactly once, equal, in order
    let equal_prefix = if client_kind {
        got_c.iter().zip(typed_c.iter()).all(|(a, b)| a == b)
    } else {
        got_s.iter().zip(typed_s.iter()).all(|(a, b)| a == b)
    };
    if !equal_prefix {
        let k = if client_kind {
            got_c.iter().zip(typed_c.iter()).position(|(a, b)| a != b)
        } else {
            got_s.iter().zip(typed_s.iter()).position(|(a, b)| a != b)
        };
        bad.push((
            "C14".into(),
            "a message arrived different from what was sent (or out of order)".into(),
            format!("stream {i}: message #{k:?} of {}", sp.msgs.len()),
        ));
    }
    if got_n < sent {
        bad.push((
            "C14".into(),
            "a message reported as sent never arrived".into(),
            format!("stream {i}: sent {sent}, received {got_n}, writer error {err:?}"),
        ));
    }
    if got_n > sent + 1 || (err.is_none() && (got_n != sent || decode_errors > 0)) {
        bad.push((
            "C14".into(),
            "the reader decoded something the writer never completed".into(),
            format!("stream {i}: sent {sent}, received {got_n}, decode errors {decode_errors}, writer error {err:?}"),
        ));
    }
    if err.is_some() {
        simcore::ctx::count("write_timeout_or_error_hit");
    }
    bad
}

pub async fn run(plan: FramePlan) -> Outcome {
    let mut out = Outcome::default();
    let mut hs = vec![];
    for (i, sp) in plan.streams.iter().enumerate() {
        hs.push(tokio::spawn(one_stream(i, sp.clone())));
    }
    let mut total = 0;
    for h in hs {
        if let Ok(b) = h.await {
            for (p, s, d) in b {
                out.violate(&p, "framing", &s, d);
            }
        }
    }
    for sp in &plan.streams {
        total += sp.msgs.len();
        // value space rides along: encoding is a function of the message alone
        for m in &sp.msgs {
            let a = serde_json::to_string(m).unwrap_or_default();
            if a.contains('\n') {
                out.violate("C14", "encoding", "an encoded message contains a line break", a);
            }
        }
    }
    out.probe_n("messages", total as u64);
    out.nontrivial = total >= 2 && (plan.knobs.p_frag > 0);
    out
}

pub fn shrink(plan: &FramePlan) -> Vec<FramePlan> {
    let mut out = vec![];
    if plan.streams.len() > 1 {
        for i in 0..plan.streams.len() {
            let mut p = plan.clone();
            p.streams.remove(i);
            out.push(p);
        }
    }
    for (si, s) in plan.streams.iter().enumerate() {
        for mi in 0..s.msgs.len() {
            if s.msgs.len() > 1 {
                let mut p = plan.clone();
                p.streams[si].msgs.remove(mi);
                out.push(p);
            }
        }
        if s.reader_stall.is_some() {
            let mut p = plan.clone();
            p.streams[si].reader_stall = None;
            out.push(p);
        }
        if s.reader_cancel_us.is_some() {
            let mut p = plan.clone();
            p.streams[si].reader_cancel_us = None;
            out.push(p);
        }
        if s.send_timeout_ms.is_some() {
            let mut p = plan.clone();
            p.streams[si].send_timeout_ms = None;
            out.push(p);
        }
    }
    if plan.knobs != KnobSpec::calm() {
        let mut p = plan.clone();
        p.knobs = KnobSpec::calm();
        out.push(p);
    }
    out
}
