//! Leader/follower extension of the wire scenario (C11, C12): the wire workload runs against a real
//! instance in leader mode; real follower instances join over the simulated TCP network at random
//! points, may be killed and rejoin, may be partitioned from the leader for a while.

use crate::check_wire::{GroupOp, Replay};
use crate::harness::{self, Outcome, ServerHandle};
use crate::model::{self, Entry};
use crate::scen_disk::recovered_candidates;
use serde::{Deserialize, Serialize};
use serde_json::{Value, json};
use simcore::Rng;
use std::collections::{BTreeMap, BTreeSet};
use std::sync::{Arc, Mutex};
use std::time::Duration;
use worterbuch::server::CloneableWbApi;
use worterbuch_common::{ClientId, INTERNAL_CLIENT_ID, WbApi};

#[derive(Clone, Debug, Serialize, Deserialize, PartialEq)]
pub struct FollowerSpec {
    pub join_at_us: u64,
    /// kill -9 the follower at this time and start a new one on the same directory 5 ms later
    pub restart_at_us: Option<u64>,
    /// (from, duration): traffic between leader and this follower is held back
    pub partition: Option<(u64, u64)>,
}

#[derive(Clone, Debug, Serialize, Deserialize, PartialEq)]
pub struct PromoteSpec {
    /// stop the follower the way the orchestrator does (SIGTERM → shutdown path) or kill it
    pub clean_stop: bool,
    /// WORTERBUCH_USE_PERSISTENCE=true in the environment of the new leader (the command line the
    /// orchestrator builds carries only the role flags)
    pub env_persistence: bool,
    /// the follower instance is restarted (as the orchestrator does) and the leader vanishes this
    /// many scheduler rounds after the new instance began to connect
    #[serde(default)]
    pub rejoin_race: Option<u32>,
}

#[derive(Clone, Debug, Serialize, Deserialize, PartialEq)]
pub struct ClusterSpec {
    pub sync_port: u16,
    pub interval_s: u64,
    pub followers: Vec<FollowerSpec>,
    pub promote: Option<PromoteSpec>,
}

pub fn gen_spec(rng: &mut Rng, focus: &str, thorough: bool) -> ClusterSpec {
    let n = rng.range(1, if thorough { 3 } else { 2 }) as usize;
    let mut followers = vec![];
    for _ in 0..n {
        let join = *rng.pick(&[0u64, 0, 2_000, 20_000, 60_000]);
        followers.push(FollowerSpec {
            join_at_us: if join == 0 { 0 } else { rng.range(0, join) },
            restart_at_us: if rng.chance(1, 5) { Some(rng.range(1_000, 80_000)) } else { None },
            partition: if rng.chance(1, 5) {
                Some((rng.range(0, 50_000), rng.range(1_000, 300_000)))
            } else {
                None
            },
        });
    }
    ClusterSpec {
        sync_port: 7000,
        interval_s: *rng.pick(&[1u64, 2, 5]),
        followers,
        promote: if focus == "C12" {
            Some(PromoteSpec {
                clean_stop: rng.chance(2, 3),
                env_persistence: rng.chance(1, 2),
                rejoin_race: if rng.chance(1, 4) { Some(rng.range(0, 40) as u32) } else { None },
            })
        } else {
            None
        },
    }
}

pub struct FollowerState {
    pub handle: Option<ServerHandle>,
    pub joined_seq: Option<u64>,
    pub restarts: u32,
    pub failed: Option<String>,
    pub dir: std::path::PathBuf,
}

pub type Followers = Arc<Mutex<Vec<FollowerState>>>;

async fn start_follower(name: &str, dir: std::path::PathBuf, port: u16, interval: u64, cbs: usize) -> Result<ServerHandle, String> {
    harness::start_server_in(name, dir, move |c| {
        c.follower = true;
        c.leader = false;
        c.leader_address = Some(format!("127.0.0.1:{port}"));
        c.use_persistence = true;
        c.persistence_interval = Duration::from_secs(interval);
        c.channel_buffer_size = cbs;
    })
    .await
}

/// spawn the follower life cycles (join, optional kill + rejoin, optional partition)
pub fn start_followers(spec: &ClusterSpec, leader_node: u32, cbs: usize) -> (Followers, Vec<tokio::task::JoinHandle<()>>) {
    let fs: Followers = Arc::new(Mutex::new(vec![]));
    let mut tasks = vec![];
    for (i, f) in spec.followers.iter().enumerate() {
        let dir = harness::run_dir().join(format!("f{i}"));
        fs.lock().expect("followers").push(FollowerState {
            handle: None,
            joined_seq: None,
            restarts: 0,
            failed: None,
            dir: dir.clone(),
        });
        let f = f.clone();
        let fs2 = fs.clone();
        let port = spec.sync_port;
        let interval = spec.interval_s;
        tasks.push(tokio::spawn(async move {
            tokio::time::sleep(Duration::from_micros(f.join_at_us)).await;
            match start_follower(&format!("f{i}"), dir.clone(), port, interval, cbs).await {
                Ok(h) => {
                    let node = h.node;
                    {
                        let mut g = fs2.lock().expect("followers");
                        g[i].joined_seq = Some(simcore::ctx::seq());
                        g[i].handle = Some(h);
                    }
                    simcore::ctx::count("follower_joined");
                    if let Some((from, dur)) = f.partition {
                        let fs3 = fs2.clone();
                        tokio::spawn(async move {
                            tokio::time::sleep(Duration::from_micros(from)).await;
                            let n = fs3.lock().expect("followers")[i].handle.as_ref().map(|h| h.node).unwrap_or(node);
                            simcore::net::set_partition(leader_node, n, true);
                            tokio::time::sleep(Duration::from_micros(dur)).await;
                            simcore::net::set_partition(leader_node, n, false);
                        });
                    }
                    if let Some(at) = f.restart_at_us {
                        tokio::time::sleep(Duration::from_micros(at)).await;
                        simcore::ctx::kill_node(node);
                        simcore::ctx::count("follower_killed");
                        tokio::time::sleep(Duration::from_millis(5)).await;
                        match start_follower(&format!("f{i}r"), dir.clone(), port, interval, cbs).await {
                            Ok(h2) => {
                                let mut g = fs2.lock().expect("followers");
                                g[i].handle = Some(h2);
                                g[i].restarts += 1;
                                g[i].joined_seq = Some(simcore::ctx::seq());
                            }
                            Err(e) => fs2.lock().expect("followers")[i].failed = Some(e),
                        }
                    }
                }
                Err(e) => fs2.lock().expect("followers")[i].failed = Some(e),
            }
        }));
    }
    (fs, tasks)
}

#[derive(Clone, Debug, Default, PartialEq)]
pub struct NodeView {
    pub user: BTreeMap<String, Entry>,
    pub registrations: BTreeMap<String, Value>,
}

pub async fn view_of(api: &CloneableWbApi) -> Option<NodeView> {
    let t = Duration::from_secs(30);
    let kvs = tokio::time::timeout(t, api.pget("#".to_owned())).await.ok()?.ok()?;
    let mut v = NodeView::default();
    for kv in kvs {
        if model::is_sys(&kv.key) {
            if crate::check_wire::is_registration_key(&kv.key) && !kv.key.ends_with("/clientName") {
                v.registrations.insert(kv.key.clone(), kv.value.clone());
            }
            continue;
        }
        let (val, ver) = tokio::time::timeout(t, api.cget(kv.key.clone())).await.ok()?.ok()?;
        v.user.insert(
            kv.key.clone(),
            Entry {
                value: val,
                cas: if ver == 0 { None } else { Some(ver) },
            },
        );
    }
    Some(v)
}

fn witness_like_id() -> ClientId {
    ClientId::from_u128(0xffff_ffff_ffff_ffff_ffff_ffff_ffff_ff01)
}

/// C11 (and the data for C12): marker write on the leader, wait for it on every follower, compare.
pub async fn check_convergence(
    out: &mut Outcome,
    spec: &ClusterSpec,
    leader: &ServerHandle,
    followers: &Followers,
    rp: &Replay,
    imported_cas_keys: &BTreeSet<String>,
) -> Option<(NodeView, Vec<(usize, NodeView)>)> {
    let t = Duration::from_secs(30);
    // heal every partition first: faults stop, then progress is demanded
    let nodes: Vec<u32> = followers
        .lock()
        .expect("followers")
        .iter()
        .filter_map(|f| f.handle.as_ref().map(|h| h.node))
        .collect();
    for n in &nodes {
        simcore::net::set_partition(leader.node, *n, false);
    }
    let marker = json!("marker-final");
    if tokio::time::timeout(t, leader.api.set("marker/final".to_owned(), marker.clone(), INTERNAL_CLIENT_ID))
        .await
        .is_err()
    {
        out.inconclusive = true;
        return None;
    }
    let apis: Vec<(usize, CloneableWbApi, u32, Option<String>)> = followers
        .lock()
        .expect("followers")
        .iter()
        .enumerate()
        .map(|(i, f)| match &f.handle {
            Some(h) => (i, Some(h.api.clone()), h.node, f.failed.clone()),
            None => (i, None, 0, f.failed.clone()),
        })
        .filter_map(|(i, a, n, f)| a.map(|a| (i, a, n, f)))
        .collect();
    let lv = view_of(&leader.api).await?;
    let mut views = vec![];
    for (i, api, node, _failed) in apis {
        if !simcore::ctx::with(|s| s.node_alive(node)) {
            continue;
        }
        // wait for the marker (it travels the same ordered channel as everything before it)
        let mut seen = false;
        for _ in 0..600 {
            match tokio::time::timeout(t, api.get("marker/final".to_owned())).await {
                Ok(Ok(v)) if v == marker => {
                    seen = true;
                    break;
                }
                Ok(_) => {}
                Err(_) => break,
            }
            tokio::time::sleep(Duration::from_millis(100)).await;
        }
        if !seen {
            // a follower whose link was cut does not reconnect by itself: inconclusive, not wrong
            out.probe("marker_never_arrived");
            out.inconclusive = true;
            continue;
        }
        out.probe("follower_compared");
        let Some(fv) = view_of(&api).await else {
            out.inconclusive = true;
            continue;
        };
        // every write offered to the follower directly is refused and changes nothing
        let before = fv.clone();
        let cid = witness_like_id();
        let refusals = [
            api.set("a/refused".to_owned(), json!(1), cid).await.err().map(|e| format!("{e}")),
            api.cset("a/refused".to_owned(), json!(1), 0, cid).await.err().map(|e| format!("{e}")),
            api.delete("marker/final".to_owned(), cid).await.err().map(|e| format!("{e}")),
            api.pdelete("marker/#".to_owned(), cid).await.err().map(|e| format!("{e}")),
            api.publish("a/refused".to_owned(), json!(1)).await.err().map(|e| format!("{e}")),
            api.lock("a/refused".to_owned(), cid).await.err().map(|e| format!("{e}")),
            api.import("{\"data\":{\"t\":{\"x\":{\"v\":1}}}}".to_owned()).await.err().map(|e| format!("{e}")),
        ];
        for (k, r) in refusals.iter().enumerate() {
            if r.is_none() {
                out.violate(
                    "C11",
                    "follower-accepted-write",
                    "a follower accepted a write offered to it directly",
                    format!("write #{k} on follower {i} succeeded"),
                );
            }
        }
        if let Some(after) = view_of(&api).await {
            if after != before {
                out.violate(
                    "C11",
                    "follower-changed-by-refused-write",
                    "a write refused by a follower changed its state",
                    format!("follower {i}"),
                );
            }
        }
        compare(out, i, &lv, &fv, rp, imported_cas_keys);
        views.push((i, fv));
    }
    let _ = spec;
    Some((lv, views))
}

fn compare(out: &mut Outcome, i: usize, l: &NodeView, f: &NodeView, rp: &Replay, imported_cas_keys: &BTreeSet<String>) {
    // keys touched by the effects of session ends on the leader
    let mut end_keys: BTreeSet<String> = BTreeSet::new();
    for (gi, g) in rp.groups.iter().enumerate() {
        if let GroupOp::SessionEnd(_) = g.what {
            for (_, k, _, _) in &rp.effects[gi] {
                end_keys.insert(k.clone());
            }
        }
    }
    let mut diff_keys: Vec<String> = vec![];
    for (k, e) in &l.user {
        if f.user.get(k) != Some(e) {
            diff_keys.push(k.clone());
        }
    }
    for k in f.user.keys() {
        if !l.user.contains_key(k) {
            diff_keys.push(k.clone());
        }
    }
    if !diff_keys.is_empty() {
        // each differing key is attributed to the first catalogued cause that explains it
        let mut classes: BTreeMap<&'static str, Vec<String>> = BTreeMap::new();
        for k in &diff_keys {
            let cas_shape = match (l.user.get(k), f.user.get(k)) {
                (Some(le), Some(fe)) if le.cas.is_none() => le
                    .value
                    .get("Cas")
                    .and_then(|c| c.as_array())
                    .map(|c| c.len() == 2 && fe.value == c[0] && fe.cas == c[1].as_u64())
                    .unwrap_or(false),
                _ => false,
            };
            // keys that ever held a Cas-shaped plain value: everything that happens to them later
            // on a follower that received them through StateSync follows from that one ambiguity
            let cas_shape = cas_shape || imported_cas_keys.contains(&format!("\u{0}casshape:{k}"));
            // an imported CAS entry has a different version on the follower; whatever csets
            // follow are then accepted on one side and rejected on the other
            let import_version = imported_cas_keys.contains(k);
            let sig = if cas_shape {
                "a plain value of the shape {\"Cas\":[x,n]} arrives on a joining follower as a CAS entry"
            } else if import_version {
                "CAS versions of imported entries differ between leader and follower"
            } else if end_keys.contains(k) {
                "deletes and sets performed at the end of a session (grave goods, last will) are not replicated to followers"
            } else {
                "a follower's user keys differ from the leader's after it processed everything the leader sent"
            };
            classes.entry(sig).or_default().push(k.clone());
        }
        for (sig, keys) in classes {
            let desc: Vec<String> = keys
                .iter()
                .take(6)
                .map(|k| format!("{k}: leader {:?} follower {:?}", l.user.get(k), f.user.get(k)))
                .collect();
            out.violate("C11", "follower-diverged", sig, format!("follower {i}: {}", desc.join("; ")));
        }
    }
    if l.registrations != f.registrations {
        let missing: Vec<&String> = l.registrations.keys().filter(|k| !f.registrations.contains_key(*k)).collect();
        let extra: Vec<&String> = f.registrations.keys().filter(|k| !l.registrations.contains_key(*k)).collect();
        let sig = if !missing.is_empty() && extra.is_empty() && l.registrations.iter().all(|(k, v)| f.registrations.get(k).map(|x| x == v).unwrap_or(true)) {
            "grave goods / last wills registered before a follower joined are missing on that follower"
        } else {
            "a follower's view of the connected clients' grave goods / last wills differs from the leader's"
        };
        out.violate(
            "C11",
            "follower-registrations",
            sig,
            format!("follower {i}: missing {missing:?}, extra {extra:?}"),
        );
    }
}

/// C12: kill the leader, stop (or kill) a follower, start a new leader on the follower's directory
/// with the command line the orchestrator builds, compare.
pub async fn check_promotion(
    out: &mut Outcome,
    spec: &ClusterSpec,
    p: &PromoteSpec,
    leader: &ServerHandle,
    followers: &Followers,
    lv: &NodeView,
    views: &[(usize, NodeView)],
) {
    let Some((fi, fv)) = views.first().cloned() else {
        out.inconclusive = true;
        return;
    };
    // let a periodic flush of the follower pass so that a killed follower has the marker state
    tokio::time::sleep(Duration::from_secs(spec.interval_s * 2 + 1)).await;
    let (dir, mut handle) = {
        let mut g = followers.lock().expect("followers");
        (g[fi].dir.clone(), g[fi].handle.take())
    };
    if let Some(rounds) = p.rejoin_race {
        // the follower instance is replaced by a new one on the same directory, and the leader
        // dies while the new one is connecting / waiting for its initial state
        if let Some(h) = handle.as_mut() {
            if p.clean_stop {
                if let Err(e) = h.stop().await {
                    out.violate("C12", "follower-stop-failed", "a follower did not shut down cleanly", e);
                    return;
                }
            } else {
                h.kill();
            }
        }
        handle = None;
        tokio::time::sleep(Duration::from_millis(5)).await;
        let (d2, port, interval) = (dir.clone(), spec.sync_port, spec.interval_s);
        let name = format!("f{fi}x");
        let jh = tokio::spawn(async move { start_follower(&name, d2, port, interval, 1000).await });
        for _ in 0..rounds {
            tokio::task::yield_now().await;
        }
        leader.kill();
        simcore::ctx::count("leader_killed");
        simcore::ctx::count("leader_killed_while_follower_rejoins");
        tokio::time::sleep(Duration::from_millis(50)).await;
        match tokio::time::timeout(Duration::from_secs(30), jh).await {
            Ok(Ok(Ok(mut h))) => {
                // an instance whose initial sync was cut short ends with an error and leaves its
                // directory alone - that is in order; only one that got its state is stopped the
                // regular way below
                let synced = match tokio::time::timeout(Duration::from_secs(5), view_of(&h.api)).await {
                    Ok(Some(v)) => v.user.contains_key("marker/final"),
                    _ => false,
                };
                if synced {
                    out.probe("rejoining_follower_got_its_initial_state");
                    handle = Some(h);
                } else {
                    out.probe("rejoining_follower_gave_up");
                    h.kill();
                }
            }
            _ => out.probe("rejoining_follower_gave_up"),
        }
    } else {
        leader.kill();
        simcore::ctx::count("leader_killed");
        tokio::time::sleep(Duration::from_millis(50)).await;
    }
    if let Some(h) = handle.as_mut() {
        if p.clean_stop {
            if let Err(e) = h.stop().await {
                out.violate("C12", "follower-stop-failed", "a follower did not shut down cleanly", e);
                return;
            }
            out.probe("follower_stopped_cleanly");
        } else {
            h.kill();
            out.probe("follower_killed_before_promotion");
        }
    }
    // the command line the orchestrator's cmd() builds; the environment carries the rest
    let args = worterbuch::Args {
        leader: true,
        follower: false,
        sync_port: Some(spec.sync_port + 1),
        leader_address: None,
        instance_name: Some("promoted".into()),
    };
    if p.env_persistence {
        // SAFETY: one simulation thread per process touches the environment at a time
        unsafe { std::env::set_var("WORTERBUCH_USE_PERSISTENCE", "true") };
    }
    let cfg = worterbuch::Config::new(Some(args)).await;
    unsafe { std::env::remove_var("WORTERBUCH_USE_PERSISTENCE") };
    let Ok(cfg) = cfg else {
        out.violate("C12", "config", "configuration from the orchestrator's command line is rejected", String::new());
        return;
    };
    let interval = spec.interval_s;
    let promoted = harness::start_server_cfg("promoted", dir, cfg, move |c| {
        c.persistence_interval = Duration::from_secs(interval);
    })
    .await;
    let promoted = match promoted {
        Ok(s) => s,
        Err(e) => {
            out.violate("C12", "promotion-start", "the promoted instance does not start", e);
            return;
        }
    };
    let Some(nv) = view_of(&promoted.api).await else {
        out.violate("C12", "promotion-start", "the promoted instance does not answer", String::new());
        return;
    };
    // expected: what the follower had, with the registrations of ALL clients that were connected
    // to the old leader buried / published
    let mut snap = model::Store::default();
    for (k, e) in &fv.user {
        snap.map.insert(k.clone(), e.clone());
    }
    for (k, v) in &lv.registrations {
        snap.map.insert(k.clone(), Entry { value: v.clone(), cas: None });
    }
    let mut want = recovered_candidates(&snap);
    if p.rejoin_race.is_some() {
        // a re-joined instance that got its initial state holds the leader's current keys (which
        // may be ahead of what the old instance had: finding F12)
        let mut snap2 = model::Store::default();
        for (k, e) in &lv.user {
            snap2.map.insert(k.clone(), e.clone());
        }
        for (k, v) in &lv.registrations {
            snap2.map.insert(k.clone(), Entry { value: v.clone(), cas: None });
        }
        want.extend(recovered_candidates(&snap2));
    }
    out.nontrivial = !lv.registrations.is_empty();
    if want.iter().any(|w| w == &nv.user) {
        out.probe("promotion_ok");
        return;
    }
    // classify
    let mut with_follower_regs = model::Store::default();
    for (k, e) in &fv.user {
        with_follower_regs.map.insert(k.clone(), e.clone());
    }
    for (k, v) in &fv.registrations {
        with_follower_regs.map.insert(k.clone(), Entry { value: v.clone(), cas: None });
    }
    let sig = if nv.user.is_empty() && !fv.user.is_empty() {
        if !p.env_persistence {
            "an instance started with the role flags only (--leader / --follower) does not use persistence: the promoted leader starts empty"
        } else {
            "the promoted leader starts empty although the follower had data"
        }
    } else if !fv.registrations.iter().all(|(k, v)| lv.registrations.get(k) == Some(v))
        && recovered_candidates(&with_follower_regs).iter().any(|w| w == &nv.user)
    {
        // the follower still held registrations the leader no longer had: those clients had left
        // (their grave goods and last wills were executed then) or had withdrawn them
        "the promoted leader executed registrations that had ended before the leader was lost"
    } else if recovered_candidates(&with_follower_regs).iter().any(|w| w == &nv.user)
        || (p.rejoin_race.is_some() && (nv.user == fv.user || nv.user == lv.user))
    {
        // (a follower instance that re-joined knows none of the registrations: all of them were
        // made before *this* join)
        "the promoted leader only buries / publishes registrations the follower knew about (those made before it joined are lost)"
    } else if nv.user == fv.user {
        "the promoted leader serves the follower's keys but applied no grave goods / last wills"
    } else {
        "the promoted leader's keys differ from what the follower had received"
    };
    let w0 = want.first().cloned().unwrap_or_default();
    let mut d = vec![];
    for (k, e) in &nv.user {
        if w0.get(k) != Some(e) {
            d.push(format!("+{k}"));
        }
    }
    for k in w0.keys() {
        if !nv.user.contains_key(k) {
            d.push(format!("-{k}"));
        }
    }
    out.violate(
        "C12",
        "promotion-state",
        sig,
        format!("clean_stop={} env_persistence={}: {}", p.clean_stop, p.env_persistence, d.join(" ")),
    );
}
