//! Checker for wire-level histories.
//!
//! The order in which the server applied the accepted mutations is read off an internal `#`
//! subscription (the *witness*; every written value is unique, so every event is attributable to
//! one request). The reference model is replayed in that order; every answer of every request —
//! including reads and rejected requests, which leave no event — must be explained by a model
//! state inside the real-time window of the request. A correct server always has such an
//! explanation, so the checker cannot alarm on a legal run.

use crate::harness::Outcome;
use crate::model::{self, Ans, Store};
use crate::wire::Ev;
use serde_json::Value;
use std::collections::{BTreeMap, BTreeSet, VecDeque};
use worterbuch_common::{
    ClientMessage as CM, PStateEvent, ServerMessage as SM, StateEvent,
};

pub const API_CLIENT: usize = usize::MAX;
/// API pseudo clients (one per concurrent harness task) live at the top of the index range
pub fn is_api(client: usize) -> bool {
    client >= usize::MAX - 1000
}

#[derive(Clone, Debug)]
pub struct OpRec {
    pub id: usize,
    pub client: usize,
    pub tid: u64,
    pub pos: usize,
    pub inv: u64,
    pub raw: String,
    pub req: Option<CM>,
    pub ans: Option<(u64, SM)>,
    pub extra_terminals: usize,
    /// key resolved for sPub (from the stream's sPubInit)
    pub spub_key: Option<String>,
    pub placed: bool,
    /// flattened entries of an import document (API pseudo request)
    pub import: Option<Vec<(String, Value, Option<u64>)>>,
}

#[derive(Clone, Debug)]
pub struct WEv {
    pub seq: u64,
    pub del: bool,
    pub key: String,
    pub value: Value,
}

#[derive(Clone, Debug, Default)]
pub struct ClientInfo {
    pub client_id: Option<String>,
    pub proto: u32,
    pub closed_by_client: Option<u64>,
    pub closed_seen: Option<u64>,
    pub welcome: Option<u64>,
    pub refused: bool,
}

#[derive(Clone, Debug)]
pub struct SubStream {
    pub client: usize,
    pub tid: u64,
    pub msgs: Vec<(u64, SM)>,
    /// simulated receipt times of `msgs`
    pub times: Vec<u64>,
}

pub struct Parsed {
    pub clients: BTreeMap<usize, ClientInfo>,
    pub ops: Vec<OpRec>,
    pub witness: Vec<WEv>,
    pub subs: BTreeMap<(usize, u64), SubStream>,
    pub strays: Vec<(usize, u64, SM)>,
    pub garbage: Vec<(usize, String)>,
    pub marks: Vec<(u64, String)>,
}

fn terminal_capable(req: &Option<CM>, msg: &SM) -> bool {
    match msg {
        SM::Ack(_) | SM::Err(_) | SM::Authorized(_) => true,
        SM::State(_) => matches!(req, Some(CM::Get(_)) | Some(CM::Delete(_))),
        SM::CState(_) => matches!(req, Some(CM::CGet(_))),
        SM::PState(_) => matches!(req, Some(CM::PGet(_)) | Some(CM::PDelete(_))),
        SM::LsState(_) => matches!(req, Some(CM::Ls(_)) | Some(CM::PLs(_))),
        SM::Welcome(_) => false,
    }
}

pub fn parse(history: &[Ev], protos: &BTreeMap<usize, u32>) -> Parsed {
    let mut p = Parsed {
        clients: BTreeMap::new(),
        ops: vec![],
        witness: vec![],
        subs: BTreeMap::new(),
        strays: vec![],
        garbage: vec![],
        marks: vec![],
    };
    let mut pending: BTreeMap<(usize, u64), VecDeque<usize>> = BTreeMap::new();
    let mut pos: BTreeMap<usize, usize> = BTreeMap::new();
    // spub stream keys: (client, tid) -> key
    let mut spub_init_ops: BTreeMap<(usize, u64), usize> = BTreeMap::new();
    for ev in history {
        match ev {
            Ev::Welcome {
                seq,
                client,
                client_id,
            } => {
                let ci = p.clients.entry(*client).or_default();
                ci.client_id = Some(client_id.clone());
                ci.welcome = Some(*seq);
                ci.proto = protos.get(client).cloned().unwrap_or(1);
            }
            Ev::Send {
                seq,
                client,
                tid,
                line,
                ..
            } => {
                let req = serde_json::from_str::<CM>(line).ok();
                let id = p.ops.len();
                let ps = pos.entry(*client).or_insert(0);
                *ps += 1;
                let mut spub_key = None;
                if let Some(CM::SPub(_)) = &req {
                    if let Some(init) = spub_init_ops.get(&(*client, *tid)) {
                        if let Some(CM::SPubInit(m)) = &p.ops[*init].req {
                            spub_key = Some(m.key.clone());
                        }
                    }
                }
                if let Some(CM::SPubInit(m)) = &req {
                    // a refused init (empty key, protected key) leaves an earlier stream with the
                    // same transaction id as it was
                    let cid = p.clients.get(client).and_then(|c| c.client_id.clone()).unwrap_or_default();
                    if !m.key.is_empty() && (is_api(*client) || model::client_may_touch(&m.key, &cid)) {
                        spub_init_ops.insert((*client, *tid), id);
                    }
                }
                p.ops.push(OpRec {
                    id,
                    client: *client,
                    tid: *tid,
                    pos: *ps,
                    inv: *seq,
                    raw: line.clone(),
                    req,
                    ans: None,
                    extra_terminals: 0,
                    spub_key,
                    placed: false,
                    import: None,
                });
                if *tid != u64::MAX {
                    pending.entry((*client, *tid)).or_default().push_back(id);
                }
                p.clients.entry(*client).or_default();
            }
            Ev::Recv { seq, client, msg, at_us } => {
                if let SM::Welcome(_) = msg {
                    continue;
                }
                let tid = msg.transaction_id().unwrap_or(u64::MAX);
                let q = pending.entry((*client, tid)).or_default();
                let front = q.front().cloned();
                match front {
                    Some(op) if terminal_capable(&p.ops[op].req, msg) => {
                        p.ops[op].ans = Some((*seq, msg.clone()));
                        q.pop_front();
                    }
                    _ => {
                        // event of a subscription, or a stray
                        let is_event = matches!(msg, SM::State(_) | SM::PState(_) | SM::LsState(_));
                        if is_event {
                            p.subs
                                .entry((*client, tid))
                                .or_insert_with(|| SubStream {
                                    client: *client,
                                    tid,
                                    msgs: vec![],
                                    times: vec![],
                                });
                            let ss = p.subs.get_mut(&(*client, tid)).expect("just inserted");
                            ss.msgs.push((*seq, msg.clone()));
                            ss.times.push(*at_us);
                        } else {
                            p.strays.push((*client, *seq, msg.clone()));
                        }
                    }
                }
            }
            Ev::RecvGarbage { client, line, .. } => p.garbage.push((*client, line.clone())),
            Ev::Closed { seq, client, how } => {
                let ci = p.clients.entry(*client).or_default();
                if how.starts_with("client") {
                    ci.closed_by_client.get_or_insert(*seq);
                } else {
                    ci.closed_seen.get_or_insert(*seq);
                }
            }
            Ev::Witness { seq, ev } => match ev {
                PStateEvent::KeyValuePairs(kvs) => {
                    for kv in kvs {
                        p.witness.push(WEv {
                            seq: *seq,
                            del: false,
                            key: kv.key.clone(),
                            value: kv.value.clone(),
                        });
                    }
                }
                PStateEvent::Deleted(kvs) => {
                    for kv in kvs {
                        p.witness.push(WEv {
                            seq: *seq,
                            del: true,
                            key: kv.key.clone(),
                            value: kv.value.clone(),
                        });
                    }
                }
            },
            Ev::Mark { seq, label } => p.marks.push((*seq, label.clone())),
        }
    }
    p
}

#[derive(Clone, Debug)]
pub enum GroupOp {
    Op(usize),
    SessionEnd(usize),
    Unexplained,
}

#[derive(Clone, Debug)]
pub struct Group {
    pub what: GroupOp,
    pub inv: u64,
    pub resp: u64,
    pub w: u64,
    pub client: usize,
    pub pos: usize,
}

pub struct Replay {
    pub groups: Vec<Group>,
    /// states[i] = model after the first i groups
    pub states: Vec<Store>,
    /// per group: the user-visible notifications it caused, in order: (del, key, value, changed)
    pub effects: Vec<Vec<(bool, String, Value, bool)>>,
    pub ended: BTreeMap<usize, usize>,
}

fn vkey(k: &str, v: &Value) -> (String, String) {
    (k.to_owned(), v.to_string())
}

pub fn sm_code(m: &SM) -> Option<u8> {
    if let SM::Err(e) = m {
        let v = serde_json::to_value(&e.error_code).ok()?;
        v.as_u64().map(|x| x as u8)
    } else {
        None
    }
}

fn strip_sys_kvs(kvs: &[worterbuch_common::KeyValuePair]) -> (BTreeMap<String, Value>, bool, usize) {
    let mut m = BTreeMap::new();
    let mut dup = false;
    let mut sys = 0;
    for kv in kvs {
        if model::is_sys(&kv.key) {
            sys += 1;
            continue;
        }
        if m.insert(kv.key.clone(), kv.value.clone()).is_some() {
            dup = true;
        }
    }
    (m, dup, sys)
}

/// does the actual message equal the model's answer? (`$SYS` content is filtered from both sides)
pub fn answer_matches(expected: &Ans, actual: &SM, quiet: bool, lenient_sys_children: bool) -> bool {
    match (expected, actual) {
        (Ans::Either(a, b), m) => {
            answer_matches(a, m, quiet, lenient_sys_children)
                || answer_matches(b, m, quiet, lenient_sys_children)
        }
        (Ans::Ack, SM::Ack(_)) => true,
        (Ans::Value(v), SM::State(s)) => matches!(&s.event, StateEvent::Value(x) if x == v),
        (Ans::Deleted(v), SM::State(s)) => matches!(&s.event, StateEvent::Deleted(x) if x == v),
        (Ans::CValue(v, ver), SM::CState(c)) => &c.event.value == v && c.event.version == *ver,
        (Ans::Kvs(m), SM::PState(ps)) => match &ps.event {
            PStateEvent::KeyValuePairs(kvs) => {
                let (got, dup, _) = strip_sys_kvs(kvs);
                let want: BTreeMap<String, Value> = m
                    .iter()
                    .filter(|(k, _)| !model::is_sys(k))
                    .map(|(k, v)| (k.clone(), v.clone()))
                    .collect();
                !dup && got == want
            }
            _ => false,
        },
        (Ans::DeletedKvs(m), SM::PState(ps)) => match &ps.event {
            PStateEvent::Deleted(kvs) => {
                if quiet {
                    return kvs.is_empty();
                }
                let (got, dup, _) = strip_sys_kvs(kvs);
                let want: BTreeMap<String, Value> = m
                    .iter()
                    .filter(|(k, _)| !model::is_sys(k))
                    .map(|(k, v)| (k.clone(), v.clone()))
                    .collect();
                !dup && got == want
            }
            _ => false,
        },
        (Ans::Children(c), SM::LsState(l)) => {
            let mut got = BTreeSet::new();
            for ch in &l.children {
                if !got.insert(ch.clone()) {
                    return false;
                }
            }
            let want: BTreeSet<String> = c.iter().filter(|s| *s != "$SYS").cloned().collect();
            if lenient_sys_children {
                want.is_subset(&got)
            } else {
                got.remove("$SYS");
                got == want
            }
        }
        (Ans::Err(codes), m) => sm_code(m).map(|c| codes.contains(&c)).unwrap_or(false),
        _ => false,
    }
}

pub fn describe(m: &SM) -> String {
    let s = serde_json::to_string(m).unwrap_or_default();
    if s.len() > 300 {
        format!("{}…", &s[..300])
    } else {
        s
    }
}

pub struct Checker<'a> {
    pub p: &'a mut Parsed,
    pub out: &'a mut Outcome,
    /// properties whose violations are reported by this check
    pub focus: &'a str,
}

pub fn is_registration_key(key: &str) -> bool {
    let s = model::segs(key);
    s.len() == 4
        && s[0] == "$SYS"
        && s[1] == "clients"
        && (s[3] == "graveGoods" || s[3] == "lastWill" || s[3] == "clientName")
}

fn malformed_registration(key: &str, value: &Value) -> bool {
    let s = model::segs(key);
    if s.len() != 4 || s[0] != "$SYS" || s[1] != "clients" {
        return false;
    }
    match s[3] {
        "graveGoods" => serde_json::from_value::<Option<Vec<String>>>(value.clone()).is_err(),
        "lastWill" => {
            serde_json::from_value::<Option<Vec<worterbuch_common::KeyValuePair>>>(value.clone())
                .is_err()
        }
        _ => false,
    }
}

/// how a client-supplied value is recognised inside `$SYS` events
fn looks_client_supplied(v: &Value) -> bool {
    fn s(x: &str) -> bool {
        let b = x.as_bytes();
        b.len() >= 3
            && matches!(b[0], b'v' | b'x' | b'w' | b't')
            && b[1].is_ascii_digit()
            && x.contains('_')
    }
    match v {
        Value::String(x) => s(x),
        Value::Array(a) => a.iter().any(looks_client_supplied),
        Value::Object(o) => o.values().any(looks_client_supplied),
        _ => false,
    }
}

impl Checker<'_> {
    fn cid(&self, client: usize) -> String {
        if is_api(client) {
            return "00000000-0000-0000-0000-000000000000".into();
        }
        self.p
            .clients
            .get(&client)
            .and_then(|c| c.client_id.clone())
            .unwrap_or_else(|| "?".into())
    }

    fn client_of_cid(&self, cid: &str) -> Option<usize> {
        self.p
            .clients
            .iter()
            .find(|(_, c)| c.client_id.as_deref() == Some(cid))
            .map(|(i, _)| *i)
    }

    /// apply request `op` to `m` as the statements describe it; returns the expected answer and
    /// the user-visible notifications (del, key, value, changed)
    pub fn apply(
        &self,
        m: &mut Store,
        op: &OpRec,
    ) -> (Ans, Vec<(bool, String, Value, bool)>) {
        let cid = self.cid(op.client);
        let internal = is_api(op.client);
        if let Some(entries) = &op.import {
            let mut fx = vec![];
            for (k, v, cas) in entries {
                let new = model::Entry {
                    value: v.clone(),
                    cas: *cas,
                };
                let changed = m.map.get(k) != Some(&new);
                m.map.insert(k.clone(), new);
                fx.push((false, k.clone(), v.clone(), changed));
            }
            return (Ans::Ack, fx);
        }
        let Some(req) = &op.req else {
            return (Ans::Err(vec![]), vec![]);
        };
        match req {
            CM::Get(g) => (m.get(&g.key), vec![]),
            CM::CGet(g) => (m.cget(&g.key), vec![]),
            CM::PGet(g) => (m.pget(&g.request_pattern), vec![]),
            CM::Ls(l) => (m.ls(l.parent.as_deref()), vec![]),
            CM::PLs(l) => (m.pls(l.parent_pattern.as_deref()), vec![]),
            CM::Set(s) => {
                let old = m.map.get(&s.key).cloned();
                let mut a = m.set(&s.key, &s.value, &cid, internal, false);
                let fx = if a == Ans::Ack {
                    let changed = old.map(|e| e.value != s.value).unwrap_or(true);
                    vec![(false, s.key.clone(), s.value.clone(), changed)]
                } else {
                    vec![]
                };
                if a == Ans::Ack && malformed_registration(&s.key, &s.value) {
                    // the statements do not say whether a malformed registration is accepted:
                    // either answer is fine, but a refusal must leave the old value in place
                    a = Ans::Either(
                        Box::new(Ans::Ack),
                        Box::new(Ans::Err(vec![model::E_IO, 4])),
                    );
                }
                (a, fx)
            }
            CM::CSet(s) => {
                let old = m.map.get(&s.key).cloned();
                let a = m.cset(&s.key, &s.value, s.version, &cid, internal);
                let fx = if a == Ans::Ack {
                    let changed = old.map(|e| e.value != s.value).unwrap_or(true);
                    vec![(false, s.key.clone(), s.value.clone(), changed)]
                } else {
                    vec![]
                };
                (a, fx)
            }
            CM::Delete(d) => {
                let a = m.delete(&d.key, &cid, internal);
                let fx = if let Ans::Deleted(v) = &a {
                    vec![(true, d.key.clone(), v.clone(), true)]
                } else {
                    vec![]
                };
                (a, fx)
            }
            CM::PDelete(d) => {
                let a = m.pdelete(&d.request_pattern, &cid, internal);
                let fx = if let Ans::DeletedKvs(kvs) = &a {
                    kvs.iter()
                        .map(|(k, v)| (true, k.clone(), v.clone(), true))
                        .collect()
                } else {
                    vec![]
                };
                (a, fx)
            }
            CM::Publish(pb) => {
                let mut errs = vec![];
                if let Some(e) = model::has_wildcard(&pb.key) {
                    errs.push(e);
                }
                if !internal && model::protected_from(&pb.key, &cid) {
                    errs.push(model::E_READ_ONLY);
                }
                if errs.is_empty() {
                    (
                        Ans::Ack,
                        vec![(false, pb.key.clone(), pb.value.clone(), true)],
                    )
                } else {
                    (Ans::Err(errs), vec![])
                }
            }
            CM::SPubInit(s) => {
                let mut errs = vec![];
                if s.key.is_empty() {
                    errs.push(model::E_EMPTY_KEY);
                }
                if !internal && !model::client_may_touch(&s.key, &cid) {
                    errs.push(model::E_READ_ONLY);
                }
                if errs.is_empty() {
                    (Ans::Ack, vec![])
                } else {
                    (Ans::Err(errs), vec![])
                }
            }
            CM::SPub(s) => match &op.spub_key {
                Some(k) => {
                    if let Some(e) = model::has_wildcard(k) {
                        (Ans::Err(vec![e]), vec![])
                    } else {
                        (Ans::Ack, vec![(false, k.clone(), s.value.clone(), true)])
                    }
                }
                None => (Ans::Err(vec![model::E_NO_PUB_STREAM]), vec![]),
            },
            _ => (Ans::Ack, vec![]),
        }
    }

    fn violate(&mut self, prop: &str, rule: &str, sig: &str, detail: String) {
        self.out.violate(prop, rule, sig, detail);
    }

    /// Replay the witness order against the model.
    pub fn replay(&mut self) -> Replay {
        let mut set_index: BTreeMap<(String, String), Vec<usize>> = BTreeMap::new();
        let mut del_claims: BTreeMap<(String, String), Vec<usize>> = BTreeMap::new();
        for op in self.p.ops.iter() {
            if let Some(entries) = &op.import {
                for (k, v, _) in entries {
                    set_index.entry(vkey(k, v)).or_default().push(op.id);
                }
            }
            match &op.req {
                Some(CM::Set(s)) => set_index.entry(vkey(&s.key, &s.value)).or_default().push(op.id),
                Some(CM::CSet(s)) => set_index.entry(vkey(&s.key, &s.value)).or_default().push(op.id),
                Some(CM::Publish(s)) => set_index.entry(vkey(&s.key, &s.value)).or_default().push(op.id),
                Some(CM::SPub(s)) => {
                    if let Some(k) = &op.spub_key {
                        set_index.entry(vkey(k, &s.value)).or_default().push(op.id)
                    }
                }
                Some(CM::Delete(d)) => {
                    if let Some((_, SM::State(st))) = &op.ans {
                        if let StateEvent::Deleted(v) = &st.event {
                            del_claims.entry(vkey(&d.key, v)).or_default().push(op.id);
                        }
                    }
                }
                Some(CM::PDelete(_)) => {
                    if let Some((_, SM::PState(ps))) = &op.ans {
                        if let PStateEvent::Deleted(kvs) = &ps.event {
                            for kv in kvs {
                                del_claims
                                    .entry(vkey(&kv.key, &kv.value))
                                    .or_default()
                                    .push(op.id);
                            }
                        }
                    }
                }
                _ => {}
            }
        }

        let mut m = Store::default();
        let mut rp = Replay {
            groups: vec![],
            states: vec![m.clone()],
            effects: vec![],
            ended: BTreeMap::new(),
        };
        let w: Vec<WEv> = self.p.witness.clone();
        let mut i = 0usize;
        let focus_c08 = true;
        while i < w.len() {
            let e = &w[i];
            let sys = model::is_sys(&e.key);
            // --- claimed / attributable events first
            let attributed: Option<usize> = if !e.del {
                set_index.get(&vkey(&e.key, &e.value)).and_then(|v| {
                    // a request cannot cause an event that was seen before the request was sent
                    let mut open: Vec<usize> = v
                        .iter()
                        .filter(|id| !self.p.ops[**id].placed && self.p.ops[**id].inv < e.seq)
                        .cloned()
                        .collect();
                    open.sort_by_key(|id| self.p.ops[*id].inv);
                    // several requests wrote this very (key, value): take the first one the model
                    // accepts at this point (a value-preserving rewrite by another client)
                    // prefer requests the server acknowledged, then unanswered ones (outcome
                    // unknown), and only then requests it refused
                    let class = |id: &usize| match self.p.ops[*id].ans.as_ref() {
                        Some(a) if sm_code(&a.1).is_none() => 0,
                        None => 1,
                        Some(_) => 2,
                    };
                    let best = open.iter().map(class).min().unwrap_or(0);
                    let pool: Vec<usize> = open.iter().filter(|id| class(id) == best).cloned().collect();
                    pool.iter()
                        .find(|id| {
                            let mut probe = m.clone();
                            !matches!(self.apply(&mut probe, &self.p.ops[**id]).0, Ans::Err(_))
                        })
                        .or(pool.first())
                        .cloned()
                })
            } else {
                del_claims.get(&vkey(&e.key, &e.value)).and_then(|v| {
                    v.iter()
                        .find(|id| !self.p.ops[**id].placed && self.p.ops[**id].inv < e.seq)
                        .cloned()
                })
            };
            if let Some(opid) = attributed {
                let op = self.p.ops[opid].clone();
                let cid = self.cid(op.client);
                // protected $SYS key touched by a client request → C08
                if sys && !is_api(op.client) && model::protected_from(&e.key, &cid) && focus_c08 {
                    let kind = op
                        .req
                        .as_ref()
                        .map(|r| serde_json::to_value(r).ok().and_then(|v| v.as_object().and_then(|o| o.keys().next().cloned())).unwrap_or_default())
                        .unwrap_or_default();
                    let sig = if e.del {
                        format!("{kind} by a client removed a protected $SYS key")
                    } else if matches!(op.req, Some(CM::Publish(_)) | Some(CM::SPub(_))) {
                        "publish on a protected $SYS key reaches its subscribers".to_owned()
                    } else {
                        format!("{kind} by a client changed a protected $SYS key")
                    };
                    self.violate(
                        "C08",
                        "sys-touched-by-client",
                        &sig,
                        format!("client {} request {} caused {} of {}", op.client, op.raw, if e.del {"deletion"} else {"notification/change"}, e.key),
                    );
                }
                let before = m.clone();
                let (ans, fx) = self.apply(&mut m, &op);
                // consume the events this request claims
                let mut consumed: Vec<(bool, String, Value)> = vec![];
                let mut j = i;
                let is_pdelete = matches!(op.req, Some(CM::PDelete(_)));
                if let Some(entries) = &op.import {
                    // every entry of the document is announced exactly once
                    let mut remaining: Vec<(String, String)> =
                        entries.iter().map(|(k, v, _)| vkey(k, v)).collect();
                    while j < w.len() {
                        let ej = &w[j];
                        if ej.del {
                            break;
                        }
                        let kk = vkey(&ej.key, &ej.value);
                        let Some(pos) = remaining.iter().position(|x| *x == kk) else {
                            break;
                        };
                        remaining.remove(pos);
                        consumed.push((false, ej.key.clone(), ej.value.clone()));
                        j += 1;
                    }
                } else if is_pdelete {
                    while j < w.len() {
                        let ej = &w[j];
                        if !ej.del {
                            break;
                        }
                        let mine = del_claims
                            .get(&vkey(&ej.key, &ej.value))
                            .map(|v| v.contains(&opid))
                            .unwrap_or(false);
                        if !mine {
                            break;
                        }
                        consumed.push((true, ej.key.clone(), ej.value.clone()));
                        j += 1;
                    }
                } else {
                    consumed.push((e.del, e.key.clone(), e.value.clone()));
                    j = i + 1;
                }
                let wseq = w[j - 1].seq;
                // compare effects (user keys and client-owned $SYS keys only)
                let want: BTreeSet<(bool, String, String)> = fx
                    .iter()
                    .map(|(d, k, v, _)| (*d, k.clone(), v.to_string()))
                    .collect();
                let got: BTreeSet<(bool, String, String)> = consumed
                    .iter()
                    .filter(|(_, k, _)| !model::protected_from(k, &cid) || is_api(op.client))
                    .map(|(d, k, v)| (*d, k.clone(), v.to_string()))
                    .collect();
                let model_rejects = matches!(ans, Ans::Err(_));
                if model_rejects {
                    // the server applied (or at least announced) something the statements forbid
                    let (prop, sig) = match &op.req {
                        Some(CM::Set(_)) if before.map.get(&e.key).map(|x| x.cas.is_some()).unwrap_or(false) => {
                            ("C02", "plain set replaced a CAS-protected value".to_owned())
                        }
                        Some(CM::CSet(_)) => ("C02", "cset with a non-matching version was applied".to_owned()),
                        _ if sys => ("C08", "request on a protected $SYS key had an effect".to_owned()),
                        _ => ("C01", "a request the model rejects had an effect".to_owned()),
                    };
                    if !(prop == "C08") {
                        self.violate(prop, "rejected-by-model-but-applied", &sig, format!("request {} expected {:?}, but the server announced {:?}", op.raw, ans, consumed));
                    }
                    // keep the model in step with the server so that later checks stay meaningful
                    for (d, k, v) in &consumed {
                        if *d {
                            m.map.remove(k);
                        } else if !matches!(op.req, Some(CM::Publish(_)) | Some(CM::SPub(_))) {
                            m.map.insert(k.clone(), model::Entry { value: v.clone(), cas: None });
                        }
                    }
                } else if want != got {
                    self.violate(
                        "C01",
                        "effect-mismatch",
                        "the keys a request changed differ from what its pattern/key implies",
                        format!("request {}: model effects {:?}, announced {:?}", op.raw, want, got),
                    );
                }
                // answer check at the application point
                if let Some((_, actual)) = &op.ans {
                    let quiet = matches!(&op.req, Some(CM::PDelete(d)) if d.quiet.unwrap_or(false));
                    if !model_rejects && !answer_matches(&ans, actual, quiet, false) {
                        let prop = if matches!(op.req, Some(CM::CSet(_))) { "C02" } else { "C01" };
                        self.violate(
                            prop,
                            "answer-mismatch-at-application",
                            "answer of an accepted request differs from the model",
                            format!("request {} expected {:?} got {}", op.raw, ans, describe(actual)),
                        );
                    }
                    if sm_code(actual).is_some() && !consumed.is_empty() {
                        self.violate(
                            "C01",
                            "error-answer-but-effect",
                            "a request answered with an error changed or announced something",
                            format!("request {} answered {} but caused {:?}", op.raw, describe(actual), consumed),
                        );
                    }
                }
                self.p.ops[opid].placed = true;
                let fx_full: Vec<(bool, String, Value, bool)> = if model_rejects {
                    consumed.iter().map(|(d, k, v)| (*d, k.clone(), v.clone(), true)).collect()
                } else {
                    // order of notifications as announced
                    consumed
                        .iter()
                        .map(|(d, k, v)| {
                            let ch = fx
                                .iter()
                                .find(|(fd, fk, fv, _)| fd == d && fk == k && fv == v)
                                .map(|x| x.3)
                                .unwrap_or(true);
                            (*d, k.clone(), v.clone(), ch)
                        })
                        .collect()
                };
                rp.groups.push(Group {
                    what: GroupOp::Op(opid),
                    inv: op.inv,
                    resp: op.ans.as_ref().map(|a| a.0).unwrap_or(u64::MAX),
                    w: wseq,
                    client: op.client,
                    pos: op.pos,
                });
                rp.effects.push(fx_full);
                rp.states.push(m.clone());
                i = j;
                continue;
            }

            // --- session end: unclaimed deletion below $SYS/clients/<cid>/ with protocol/address nearby
            if sys && e.del {
                if let Some(rest) = e.key.strip_prefix("$SYS/clients/") {
                    let cid = rest.split('/').next().unwrap_or("").to_owned();
                    if let Some(client) = self.client_of_cid(&cid) {
                        if !rp.ended.contains_key(&client) {
                            // look ahead inside the run of $SYS events
                            let mut j = i;
                            let mut is_end = false;
                            while j < w.len() && model::is_sys(&w[j].key) {
                                if !w[j].del && is_registration_key(&w[j].key) {
                                    // a registration being written - by this client (so its
                                    // session has not ended: what came before is bookkeeping of an
                                    // unsubscribe) or by another one (a request of its own,
                                    // interleaved with the bookkeeping of a forwarder that
                                    // unsubscribes after its connection failed): either way the
                                    // end of the session proper has not begun yet
                                    break;
                                }
                                if w[j].del
                                    && (w[j].key == format!("$SYS/clients/{cid}/protocol")
                                        || w[j].key == format!("$SYS/clients/{cid}/address"))
                                {
                                    is_end = true;
                                }
                                j += 1;
                            }
                            if is_end {
                                i = self.session_end(client, &cid, &w, i, &mut m, &mut rp);
                                continue;
                            }
                        }
                    }
                }
            }

            if sys {
                // server-side bookkeeping; a client-looking value on a protected key is a C08 matter
                if !e.del && looks_client_supplied(&e.value) && !e.key.contains("/graveGoods") && !e.key.contains("/lastWill") && !e.key.contains("/clientName") {
                    self.violate(
                        "C08",
                        "client-value-under-sys",
                        "a protected $SYS key announced a client-supplied value",
                        format!("{} = {}", e.key, e.value),
                    );
                }
                if e.del && e.key.starts_with("$SYS/sentinel") {
                    self.violate(
                        "C08",
                        "sentinel-deleted",
                        "a protected $SYS key was removed by a client request",
                        format!("{} deleted (unattributed)", e.key),
                    );
                }
                i += 1;
                continue;
            }

            // --- unclaimed user-key event: quiet / unanswered delete or pdelete?
            if e.del {
                // session order: a request cannot take effect after a later request of the same
                // session has
                let mut max_placed: BTreeMap<usize, usize> = BTreeMap::new();
                for g in &rp.groups {
                    if g.pos != usize::MAX {
                        let e = max_placed.entry(g.client).or_insert(0);
                        *e = (*e).max(g.pos);
                    }
                }
                let cand: Vec<usize> = self
                    .p
                    .ops
                    .iter()
                    .filter(|o| !o.placed && o.inv < e.seq)
                    .filter(|o| o.pos > max_placed.get(&o.client).cloned().unwrap_or(0))
                    .filter(|o| match &o.req {
                        Some(CM::Delete(d)) => o.ans.is_none() && d.key == e.key,
                        Some(CM::PDelete(d)) => {
                            (o.ans.is_none() || d.quiet.unwrap_or(false))
                                && model::matches(&d.request_pattern, &e.key)
                        }
                        _ => false,
                    })
                    .map(|o| o.id)
                    .collect();
                if cand.len() == 1 {
                    let opid = cand[0];
                    let op = self.p.ops[opid].clone();
                    let (ans, fx) = self.apply(&mut m, &op);
                    let want: BTreeSet<(String, String)> =
                        fx.iter().map(|(_, k, v, _)| (k.clone(), v.to_string())).collect();
                    let mut got = BTreeSet::new();
                    let mut j = i;
                    let mut consumed = vec![];
                    while j < w.len() && w[j].del && want.contains(&(w[j].key.clone(), w[j].value.to_string())) {
                        got.insert((w[j].key.clone(), w[j].value.to_string()));
                        consumed.push((true, w[j].key.clone(), w[j].value.clone(), true));
                        j += 1;
                    }
                    if want != got || matches!(ans, Ans::Err(_)) {
                        self.violate(
                            "C01",
                            "effect-mismatch",
                            "the keys a request changed differ from what its pattern/key implies",
                            format!("request {}: model effects {:?}, announced {:?}", op.raw, want, got),
                        );
                        if j == i {
                            j = i + 1;
                        }
                    }
                    self.p.ops[opid].placed = true;
                    rp.groups.push(Group {
                        what: GroupOp::Op(opid),
                        inv: op.inv,
                        resp: op.ans.as_ref().map(|a| a.0).unwrap_or(u64::MAX),
                        w: w[j - 1].seq,
                        client: op.client,
                        pos: op.pos,
                    });
                    rp.effects.push(consumed);
                    rp.states.push(m.clone());
                    i = j;
                    continue;
                } else if cand.len() > 1 {
                    self.out.inconclusive = true;
                    self.out.probe("ambiguous_attribution");
                    return rp;
                }
            }
            // nothing explains this event
            self.violate(
                "C03",
                "unexplained-notification",
                "a change was announced that no request explains",
                format!("{} {} = {}", if e.del { "deleted" } else { "set" }, e.key, e.value),
            );
            if e.del {
                m.map.remove(&e.key);
            } else {
                m.map.insert(e.key.clone(), model::Entry { value: e.value.clone(), cas: None });
            }
            rp.groups.push(Group {
                what: GroupOp::Unexplained,
                inv: 0,
                resp: u64::MAX,
                w: e.seq,
                client: usize::MAX - 1,
                pos: 0,
            });
            rp.effects.push(vec![(e.del, e.key.clone(), e.value.clone(), true)]);
            rp.states.push(m.clone());
            i += 1;
        }
        rp
    }

    /// consume the notifications of one session end starting at witness index `i`
    fn session_end(
        &mut self,
        client: usize,
        cid: &str,
        w: &[WEv],
        mut i: usize,
        m: &mut Store,
        rp: &mut Replay,
    ) -> usize {
        let gg_key = format!("$SYS/clients/{cid}/graveGoods");
        let lw_key = format!("$SYS/clients/{cid}/lastWill");
        let gg: Option<Vec<String>> = m
            .map
            .get(&gg_key)
            .and_then(|e| serde_json::from_value(e.value.clone()).ok());
        let lw: Option<Vec<worterbuch_common::KeyValuePair>> = m
            .map
            .get(&lw_key)
            .and_then(|e| serde_json::from_value(e.value.clone()).ok());
        let mut fx: Vec<(bool, String, Value, bool)> = vec![];
        let first_seq = w[i].seq;
        // phase 1: bookkeeping before and including the removal of the client's own $SYS entries.
        // The run of $SYS events may continue with the *next* session's end: stop at the first
        // event that cannot belong to this one.
        let prefix = format!("$SYS/clients/{cid}/");
        let mut seen_anchor = false;
        while i < w.len() && model::is_sys(&w[i].key) {
            let k = &w[i].key;
            let own = k.starts_with(&prefix);
            if own {
                if w[i].del {
                    m.map.remove(k);
                    if k.ends_with("/protocol") || k.ends_with("/address") {
                        seen_anchor = true;
                    }
                }
                i += 1;
                continue;
            }
            let other_client = k.starts_with("$SYS/clients/");
            let lock = k.starts_with("$SYS/locks");
            if seen_anchor && (other_client || lock) {
                break;
            }
            if seen_anchor && k == "$SYS/clients" {
                // the client count is written before the entries are removed
                break;
            }
            i += 1;
        }
        // anything of that client the server did not announce still has to be gone
        let left: Vec<String> = m.map.keys().filter(|k| k.starts_with(&prefix)).cloned().collect();
        for k in left {
            m.map.remove(&k);
        }
        // phase 2: grave goods, in registration order, as that client
        let mut missing: Vec<String> = vec![];
        if let Some(gg) = gg {
            for pat in gg {
                let ans = m.pdelete(&pat, cid, false);
                if !matches!(ans, Ans::DeletedKvs(_)) && pat.starts_with("$SYS") {
                    // a grave good that names $SYS literally is refused; nothing may disappear
                    while i < w.len() && w[i].del && model::is_sys(&w[i].key) && model::matches(&pat, &w[i].key) && !w[i].key.starts_with(&prefix) {
                        self.violate(
                            "C07",
                            "session-end-writes-protected-key",
                            "a session end applied a last will or grave good to a protected $SYS key",
                            format!("client {client}: grave good {pat} removed {}", w[i].key),
                        );
                        i += 1;
                    }
                }
                if let Ans::DeletedKvs(kvs) = ans {
                    let mut want: BTreeMap<(String, String), Value> = kvs
                        .iter()
                        .map(|(k, v)| ((k.clone(), v.to_string()), v.clone()))
                        .collect();
                    while i < w.len() {
                        let e = &w[i];
                        if model::is_sys(&e.key) {
                            if e.del && self.p.ops.iter().any(|o| {
                                !o.placed
                                    && o.inv < e.seq
                                    && matches!(&o.req, Some(CM::Delete(d)) if d.key == e.key)
                            }) {
                                // some client's own delete request explains it (a client may
                                // delete its own clientName, grave goods, last will)
                                break;
                            }
                            if e.del && e.key.starts_with("$SYS/locks/") && lock_released_by_next_session_end(w, i, cid) {
                                // the server's own bookkeeping at the beginning of the next
                                // session end (unlock_all runs first there): not this grave good's
                                break;
                            }
                            if e.del && model::matches(&pat, &e.key) && model::protected_from(&e.key, cid) {
                                if pat.starts_with("$SYS") {
                                    self.violate(
                                        "C07",
                                        "session-end-writes-protected-key",
                                        "a session end applied a last will or grave good to a protected $SYS key",
                                        format!("client {client}: grave good {pat} removed {}", e.key),
                                    );
                                }
                                self.violate(
                                    "C08",
                                    "sys-deleted-by-grave-goods",
                                    "grave goods of a client removed a protected $SYS key",
                                    format!("grave good {pat} of client {client} removed {}", e.key),
                                );
                                i += 1;
                                continue;
                            }
                            break;
                        }
                        let kk = (e.key.clone(), e.value.to_string());
                        if e.del && want.contains_key(&kk) {
                            want.remove(&kk);
                            fx.push((true, e.key.clone(), e.value.clone(), true));
                            i += 1;
                        } else {
                            break;
                        }
                    }
                    for ((k, _), _) in want {
                        missing.push(format!("delete {k} (grave good {pat})"));
                    }
                }
            }
        }
        // phase 3: last will, in order, overriding CAS protection
        if let Some(lw) = lw {
            for kv in lw {
                let old = m.map.get(&kv.key).cloned();
                let ans = m.set(&kv.key, &kv.value, cid, false, true);
                if ans != Ans::Ack && model::is_sys(&kv.key) {
                    // a last will that points at a protected key must not be applied
                    let mut j = i;
                    while j < w.len() && model::is_sys(&w[j].key) {
                        if !w[j].del && w[j].key == kv.key && w[j].value == kv.value {
                            self.violate(
                                "C07",
                                "session-end-writes-protected-key",
                                "a session end applied a last will or grave good to a protected $SYS key",
                                format!("client {client}: last will {} = {}", kv.key, kv.value),
                            );
                        }
                        j += 1;
                    }
                }
                if ans == Ans::Ack {

                    if i < w.len() && !w[i].del && w[i].key == kv.key && w[i].value == kv.value {
                        let changed = old.map(|e| e.value != kv.value).unwrap_or(true);
                        fx.push((false, kv.key.clone(), kv.value.clone(), changed));
                        i += 1;
                    } else {
                        missing.push(format!("set {} = {} (last will)", kv.key, kv.value));
                    }
                }
            }
        }
        if i < w.len() && !w[i].del && w[i].key == "$SYS/subscriptions" {
            i += 1;
        }
        if !missing.is_empty() {
            self.violate(
                "C07",
                "session-end-effect-missing",
                "a session ended without burying a grave good or publishing a last will",
                format!("client {client}: missing {missing:?}"),
            );
        }
        let last_seq = if i > 0 { w[i - 1].seq } else { first_seq };
        // the earliest moment the server can have noticed the end of the session: the client's
        // own close — unless the server ended the session first
        let inv = self
            .p
            .clients
            .get(&client)
            .and_then(|c| match (c.closed_by_client, c.closed_seen) {
                (Some(a), Some(b)) if a < b => Some(a),
                (Some(a), None) => Some(a),
                _ => None,
            })
            .unwrap_or(0);
        // the server may have ended the session on its own (a request the session layer refuses)
        // before the client closed it: the end cannot have been caused later than it was announced
        let inv = inv.min(first_seq);
        rp.ended.insert(client, rp.groups.len());
        rp.groups.push(Group {
            what: GroupOp::SessionEnd(client),
            inv,
            resp: u64::MAX,
            w: last_seq,
            client,
            pos: usize::MAX,
        });
        rp.effects.push(fx);
        rp.states.push(m.clone());
        i
    }

    /// window of model states that may explain a request without events: `[lo, hi]`
    pub fn window(&self, rp: &Replay, op: &OpRec) -> (usize, usize) {
        let resp = op.ans.as_ref().map(|a| a.0).unwrap_or(u64::MAX);
        let mut lo = 0usize;
        let mut hi = rp.groups.len();
        for (gi, g) in rp.groups.iter().enumerate() {
            let same = g.client == op.client;
            let before = g.resp < op.inv || g.w < op.inv || (same && g.pos < op.pos);
            let after = g.inv > resp || (same && g.pos > op.pos && g.pos != usize::MAX);
            if before {
                lo = lo.max(gi + 1);
            }
            if after {
                hi = hi.min(gi);
            }
        }
        (lo, hi)
    }

    /// every request that left no event must be explained by some state in its window
    pub fn check_unplaced(&mut self, rp: &Replay) {
        let ops: Vec<OpRec> = self.p.ops.iter().filter(|o| !o.placed).cloned().collect();
        for op in ops {
            let Some(req) = &op.req else { continue };
            let Some((_, actual)) = &op.ans else { continue };
            let storeish = matches!(
                req,
                CM::Get(_)
                    | CM::CGet(_)
                    | CM::PGet(_)
                    | CM::Ls(_)
                    | CM::PLs(_)
                    | CM::Set(_)
                    | CM::CSet(_)
                    | CM::Delete(_)
                    | CM::PDelete(_)
                    | CM::Publish(_)
                    | CM::SPubInit(_)
                    | CM::SPub(_)
            );
            if !storeish {
                continue;
            }
            let (lo, hi) = self.window(rp, &op);
            if lo > hi {
                self.violate(
                    "C01",
                    "order",
                    "the order in which changes were announced contradicts the order of answers",
                    format!("request {} has an empty window [{lo},{hi}]", op.raw),
                );
                continue;
            }
            let quiet = matches!(req, CM::PDelete(d) if d.quiet.unwrap_or(false));
            let lenient = match req {
                CM::PLs(l) => l
                    .parent_pattern
                    .as_deref()
                    .map(|p| p.starts_with('?') || p.starts_with("$SYS"))
                    .unwrap_or(false),
                CM::Ls(l) => l.parent.as_deref().map(|p| p.starts_with("$SYS")).unwrap_or(false),
                CM::PGet(_) => false,
                _ => false,
            };
            // requests that name $SYS literally are judged by C08's own oracle
            let names_sys = match req {
                CM::Get(g) | CM::CGet(g) => model::is_sys(&g.key) && !is_registration_key(&g.key),
                CM::PGet(g) => model::is_sys(&g.request_pattern),
                CM::Ls(l) => l.parent.as_deref().map(model::is_sys).unwrap_or(false),
                CM::PLs(l) => l.parent_pattern.as_deref().map(model::is_sys).unwrap_or(false),
                _ => false,
            };
            if names_sys {
                continue;
            }
            let mut ok = false;
            let mut first_expected = None;
            for i in lo..=hi {
                let mut s = rp.states[i].clone();
                let before = s.clone();
                let (ans, fx) = self.apply(&mut s, &op);
                // a request without events must not have changed anything user-visible
                let mutates = !fx.is_empty() && s != before;
                let silent_ok = !mutates
                    || matches!(req, CM::Publish(_) | CM::SPub(_))
                    || matches!(ans, Ans::Err(_));
                if first_expected.is_none() {
                    first_expected = Some(ans.clone());
                }
                let _ = silent_ok;
                if answer_matches(&ans, actual, quiet, lenient)
                    && (fx.is_empty() || sm_code(actual).is_some())
                {
                    ok = true;
                    break;
                }
            }
            if !ok {
                let (prop, rule, sig): (&str, &str, String) = match req {
                    CM::CSet(_) | CM::CGet(_) => ("C02", "cas-answer", "cget/cset answer not explained by any state in its window".into()),
                    CM::Ls(_) | CM::PLs(_) => ("C05", "ls-answer", "ls/pls answer not explained by any state in its window".into()),
                    CM::Set(s) if model::is_sys(&s.key) => ("C07", "registration-answer", "setting an own $SYS entry was answered unexpectedly".into()),
                    _ => ("C01", "read-or-reject-answer", "answer not explained by any state in its window".into()),
                };
                // an answer of the wrong kind or with the error code of a reason that does not
                // apply is also C13's business (one answer per request, "with the error code of
                // the reason")
                // (not for writes to a client's own $SYS entries: their announcements are only
                // attributed to requests where the session-end rules need them)
                // Restricted to publish streams: what a session's sPubInit/sPub must be answered
                // depends on that session's own earlier requests only. Reads depend on the whole
                // store, and in C13's workload (sessions the server ends for protocol violations,
                // $SYS-reaching patterns) the model of the store is not kept exact enough to judge
                // them - that is C01's and C05's job on their own workloads.
                if prop != "C07" && matches!(req, CM::SPub(_) | CM::SPubInit(_)) {
                self.violate(
                    "C13",
                    "answer-not-the-reason",
                    "a request was answered with a message or error code that no state of the store explains",
                    format!("request {} answered {} ; window [{lo},{hi}]", op.raw, describe(actual)),
                );
                }
                self.violate(
                    prop,
                    rule,
                    &sig,
                    format!(
                        "request {} answered {} ; window [{lo},{hi}], model at lo says {:?}",
                        op.raw,
                        describe(actual),
                        first_expected
                    ),
                );
            }
        }
    }

    /// real-time consistency of the announced order itself
    pub fn check_group_order(&mut self, rp: &Replay) {
        for (gi, g) in rp.groups.iter().enumerate() {
            for h in rp.groups.iter().skip(gi + 1) {
                if h.resp < g.inv {
                    self.violate(
                        "C01",
                        "order",
                        "the order in which changes were announced contradicts the order of answers",
                        format!("{:?} announced before {:?} although the latter was answered before the former was sent", g.what, h.what),
                    );
                    return;
                }
                if g.client == h.client && g.pos != usize::MAX && h.pos != usize::MAX && h.pos < g.pos {
                    self.violate(
                        "C01",
                        "session-order",
                        "requests of one session were applied out of order",
                        format!("{:?} before {:?}", g.what, h.what),
                    );
                    return;
                }
            }
        }
    }
}

// =================================================================================================
// subscriptions (C03), ls-subscriptions (C05), answer accounting (C13), read-back (C01/C05)

#[derive(Clone, Debug, PartialEq)]
enum SubMsg {
    /// one message: list of (del, key, value)
    Snapshot(BTreeMap<String, String>),
    Ev(bool, String, String),
}

/// the one-or-more reading of a trailing `#` that the event router implements (finding #3)
fn matches_router(pattern: &str, key: &str) -> bool {
    let p = model::segs(pattern);
    if p.last() == Some(&"#") && p.len() >= 2 {
        let k = model::segs(key);
        if k.len() == p.len() - 1 {
            return false;
        }
    }
    model::matches(pattern, key)
}

impl Checker<'_> {
    fn expected_stream(
        &self,
        rp: &Replay,
        pattern: &str,
        is_p: bool,
        unique: bool,
        live_only: bool,
        p0: usize,
        q: usize,
        router_reading: bool,
    ) -> Vec<SubMsg> {
        let mut out = vec![];
        if !live_only {
            let st = &rp.states[p0];
            if is_p {
                let snap: BTreeMap<String, String> = st
                    .matching(pattern)
                    .into_iter()
                    .filter(|(k, _)| !model::is_sys(k))
                    .map(|(k, v)| (k, v.to_string()))
                    .collect();
                out.push(SubMsg::Snapshot(snap));
            } else if let Some(e) = st.map.get(pattern) {
                out.push(SubMsg::Ev(false, pattern.to_owned(), e.value.to_string()));
            }
        }
        for g in p0..q {
            for (del, k, v, changed) in &rp.effects[g] {
                if model::is_sys(k) {
                    continue;
                }
                let hit = if router_reading {
                    matches_router(pattern, k)
                } else {
                    model::matches(pattern, k)
                };
                if hit && (!unique || *changed) {
                    out.push(SubMsg::Ev(*del, k.clone(), v.to_string()));
                }
            }
        }
        out
    }

    pub fn check_subscriptions(&mut self, rp: &Replay) {
        let ops: Vec<OpRec> = self.p.ops.clone();
        for op in ops.iter() {
            let (pattern, unique, live_only, is_p, aggregated) = match &op.req {
                Some(CM::Subscribe(s)) => (
                    s.key.clone(),
                    s.unique,
                    s.live_only.unwrap_or(false),
                    false,
                    false,
                ),
                Some(CM::PSubscribe(s)) => (
                    s.request_pattern.clone(),
                    s.unique,
                    s.live_only.unwrap_or(false),
                    true,
                    s.aggregate_events.is_some(),
                ),
                _ => continue,
            };
            let Some((ack_seq, SM::Ack(_))) = &op.ans else {
                continue;
            };
            if aggregated || model::has_inner_multi(&pattern) {
                // aggregation is C16's matter; a `#` before the last position is not a pattern
                // the statements give a meaning to
                continue;
            }
            // is this the only subscribe with this transaction id on this session?
            let same_tid = ops
                .iter()
                .filter(|o| {
                    o.client == op.client
                        && o.tid == op.tid
                        && matches!(o.req, Some(CM::Subscribe(_)) | Some(CM::PSubscribe(_)))
                })
                .count();
            if same_tid > 1 {
                continue;
            }
            self.out.probe("subscriptions_checked");
            let stream = self
                .p
                .subs
                .get(&(op.client, op.tid))
                .map(|s| s.msgs.clone())
                .unwrap_or_default();
            // events carry the subscribe's id and start only after its Ack
            if let Some((s0, _)) = stream.first() {
                if s0 < ack_seq {
                    self.violate(
                        "C13",
                        "event-before-ack",
                        "a subscription event arrived before the Ack of its subscribe request",
                        format!("subscription {} of client {}", op.raw, op.client),
                    );
                }
            }
            // received stream, $SYS filtered
            let mut got: Vec<SubMsg> = vec![];
            let mut first = true;
            for (_, m) in &stream {
                match m {
                    SM::State(s) if !is_p => match &s.event {
                        StateEvent::Value(v) => got.push(SubMsg::Ev(false, pattern.clone(), v.to_string())),
                        StateEvent::Deleted(v) => got.push(SubMsg::Ev(true, pattern.clone(), v.to_string())),
                    },
                    SM::PState(ps) if is_p => {
                        let (del, kvs) = match &ps.event {
                            PStateEvent::KeyValuePairs(k) => (false, k),
                            PStateEvent::Deleted(k) => (true, k),
                        };
                        if first && !live_only && !del {
                            let snap: BTreeMap<String, String> = kvs
                                .iter()
                                .filter(|kv| !model::is_sys(&kv.key))
                                .map(|kv| (kv.key.clone(), kv.value.to_string()))
                                .collect();
                            got.push(SubMsg::Snapshot(snap));
                        } else {
                            for kv in kvs {
                                if !model::is_sys(&kv.key) {
                                    got.push(SubMsg::Ev(del, kv.key.clone(), kv.value.to_string()));
                                }
                            }
                        }
                    }
                    other => {
                        self.violate(
                            "C13",
                            "wrong-event-kind",
                            "a subscription received a message of the wrong kind",
                            format!("subscription {} got {}", op.raw, describe(other)),
                        );
                    }
                }
                first = false;
            }
            // where can the subscription have started / ended
            let (lo, hi) = self.window(rp, op);
            let n = rp.groups.len();
            let unsub = ops.iter().find(|o| {
                o.client == op.client
                    && o.tid == op.tid
                    && o.pos > op.pos
                    && matches!(o.req, Some(CM::Unsubscribe(_)))
                    && matches!(o.ans, Some((_, SM::Ack(_))))
            });
            let ended = rp.ended.get(&op.client).cloned();
            let (qlo, qhi) = if let Some(u) = unsub {
                self.window(rp, u)
            } else if let Some(ge) = ended {
                (ge, ge)
            } else {
                (n, n)
            };
            let ci = self.p.clients.get(&op.client).cloned().unwrap_or_default();
            let truncated_ok = ci.closed_by_client.is_some() || ci.closed_seen.is_some() || ended.is_some();
            let mut ok = false;
            let mut ok_router = false;
            'search: for p0 in lo..=hi.min(n) {
                for q in qlo.max(p0)..=qhi.min(n) {
                    for router in [false, true] {
                        let exp = self.expected_stream(rp, &pattern, is_p, unique, live_only, p0, q, router);
                        // Events travel through the subscription's forwarding task, answers do
                        // not: an event that was queued before the unsubscribe may still be on its
                        // way when the Ack arrives, and is lost if the connection goes away before
                        // the forwarder gets to run. So for a session that ended, a missing tail
                        // proves nothing (with or without an unsubscribe); for a session that is
                        // still connected at the final quiescent point everything must be there.
                        let m = if truncated_ok {
                            got.len() <= exp.len() && exp[..got.len()] == got[..]
                        } else {
                            exp == got
                        };
                        if m {
                            if router {
                                ok_router = true;
                            } else {
                                ok = true;
                                break 'search;
                            }
                        }
                    }
                }
            }
            if !ok {
                let sig = if ok_router {
                    "a subscription on P/# is not told about changes of key P (its snapshot and pget contain P)"
                } else {
                    "subscription stream differs from the accepted changes (lost, duplicated, reordered or spurious event)"
                };
                let exp = self.expected_stream(rp, &pattern, is_p, unique, live_only, lo, qhi.min(n), false);
                self.violate(
                    "C03",
                    if ok_router { "multiwildcard-self-key" } else { "stream-mismatch" },
                    sig,
                    format!(
                        "subscription {} (client {}), start window [{lo},{hi}], end window [{qlo},{qhi}]; received {:?}; expected for earliest start {:?}",
                        op.raw, op.client, got, exp
                    ),
                );
            }
        }
    }

    /// last list of each live ls-subscription equals ls(parent) at the end
    pub fn check_ls_subscriptions(&mut self, rp: &Replay, alive: &BTreeSet<usize>) {
        let ops: Vec<OpRec> = self.p.ops.clone();
        let last = rp.states.last().cloned().unwrap_or_default();
        for op in ops.iter() {
            let Some(CM::SubscribeLs(s)) = &op.req else { continue };
            let Some((ack_seq, SM::Ack(_))) = &op.ans else { continue };
            if !alive.contains(&op.client) {
                continue;
            }
            let dup = ops
                .iter()
                .filter(|o| o.client == op.client && o.tid == op.tid && matches!(o.req, Some(CM::SubscribeLs(_))))
                .count();
            if dup > 1 {
                continue;
            }
            let unsub = ops.iter().any(|o| {
                o.client == op.client
                    && o.tid == op.tid
                    && o.pos > op.pos
                    && matches!(o.req, Some(CM::UnsubscribeLs(_)))
            });
            if unsub {
                continue;
            }
            if s.parent.as_deref().map(model::is_sys).unwrap_or(false) {
                continue;
            }
            self.out.probe("ls_subscriptions_checked");
            let stream = self
                .p
                .subs
                .get(&(op.client, op.tid))
                .map(|s| s.msgs.clone())
                .unwrap_or_default();
            if let Some((s0, _)) = stream.first() {
                if s0 < ack_seq {
                    self.violate(
                        "C13",
                        "event-before-ack",
                        "a subscription event arrived before the Ack of its subscribe request",
                        format!("ls subscription {}", op.raw),
                    );
                }
            }
            let want: BTreeSet<String> = last
                .children(s.parent.as_deref())
                .unwrap_or_default()
                .into_iter()
                .filter(|c| c != "$SYS")
                .collect();
            let got: Option<BTreeSet<String>> = stream.iter().rev().find_map(|(_, m)| match m {
                SM::LsState(l) => Some(l.children.iter().filter(|c| *c != "$SYS").cloned().collect()),
                _ => None,
            });
            match got {
                None => self.violate(
                    "C05",
                    "ls-subscription-no-list",
                    "an ls-subscription never received a child list",
                    format!("{}", op.raw),
                ),
                Some(g) if g != want => {
                    let phantom: Vec<&String> = g.difference(&want).collect();
                    let sig = if !phantom.is_empty() {
                        "last list of an ls-subscription names a child under which nothing is stored"
                    } else {
                        "last list of an ls-subscription misses an existing child"
                    };
                    self.violate(
                        "C05",
                        "ls-subscription-stale",
                        sig,
                        format!("{}: last list {:?}, ls says {:?}", op.raw, g, want),
                    )
                }
                _ => {}
            }
        }
    }

    /// C13: exactly one terminal answer of the right kind, in request order
    pub fn check_answers(&mut self, alive: &BTreeSet<usize>, pending_lock_ok: &BTreeSet<usize>) {
        let ops: Vec<OpRec> = self.p.ops.clone();
        for (client, seq, m) in self.p.strays.clone() {
            let _ = seq;
            // an Ack/Err that no request of this session asked for
            self.violate(
                "C13",
                "stray-answer",
                "an answer arrived that no request of the session explains",
                format!("client {client}: {}", describe(&m)),
            );
        }
        for (client, line) in self.p.garbage.clone() {
            self.violate(
                "C14",
                "undecodable-server-message",
                "the server sent a line that does not decode as a server message",
                format!("client {client}: {line}"),
            );
        }
        let mut last_ans: BTreeMap<usize, (u64, usize)> = BTreeMap::new();
        for op in ops.iter() {
            let Some(req) = &op.req else { continue };
            if op.tid == u64::MAX {
                continue;
            }
            let ci = self.p.clients.get(&op.client).cloned().unwrap_or_default();
            // requests the session layer refuses (not asserted, see DESIGN section 10 C13)
            let v1_only = matches!(
                req,
                CM::CGet(_) | CM::CSet(_) | CM::Lock(_) | CM::AcquireLock(_) | CM::ReleaseLock(_)
            );
            let refusal = matches!(req, CM::Transform(_))
                || (ci.proto == 0 && v1_only)
                || matches!(req, CM::AuthorizationRequest(_))
                || matches!(req, CM::ProtocolSwitchRequest(r) if r.version > 1);
            match &op.ans {
                None => {
                    if refusal {
                        self.out.probe("session_level_refusals");
                        continue;
                    }
                    if !alive.contains(&op.client) {
                        continue;
                    }
                    if matches!(req, CM::AcquireLock(_)) && pending_lock_ok.contains(&op.id) {
                        continue;
                    }
                    // a refusal earlier in the session ends it; later requests are never read
                    let refused_before = ops.iter().any(|o| {
                        o.client == op.client && o.pos < op.pos && o.ans.is_none() && o.req.is_some()
                    });
                    if refused_before {
                        continue;
                    }
                    self.violate(
                        "C13",
                        "no-answer",
                        "a well-formed request on a live session was never answered",
                        format!("client {} request {}", op.client, op.raw),
                    );
                }
                Some((seq, m)) => {
                    let kind_ok = match (req, m) {
                        (_, SM::Err(_)) => true,
                        (CM::Get(_), SM::State(s)) => matches!(s.event, StateEvent::Value(_)),
                        (CM::Delete(_), SM::State(s)) => matches!(s.event, StateEvent::Deleted(_)),
                        (CM::CGet(_), SM::CState(_)) => true,
                        (CM::PGet(_), SM::PState(p)) => matches!(p.event, PStateEvent::KeyValuePairs(_)),
                        (CM::PDelete(_), SM::PState(p)) => matches!(p.event, PStateEvent::Deleted(_)),
                        (CM::Ls(_), SM::LsState(_)) | (CM::PLs(_), SM::LsState(_)) => true,
                        (CM::AuthorizationRequest(_), SM::Authorized(_)) => true,
                        (
                            CM::Set(_)
                            | CM::CSet(_)
                            | CM::Publish(_)
                            | CM::SPubInit(_)
                            | CM::SPub(_)
                            | CM::Subscribe(_)
                            | CM::PSubscribe(_)
                            | CM::Unsubscribe(_)
                            | CM::SubscribeLs(_)
                            | CM::UnsubscribeLs(_)
                            | CM::Lock(_)
                            | CM::AcquireLock(_)
                            | CM::ReleaseLock(_)
                            | CM::ProtocolSwitchRequest(_),
                            SM::Ack(_),
                        ) => true,
                        _ => false,
                    };
                    if !kind_ok {
                        self.violate(
                            "C13",
                            "wrong-answer-kind",
                            "a request was answered with a message kind the protocol does not assign to it",
                            format!("request {} answered {}", op.raw, describe(m)),
                        );
                    }
                    if !matches!(req, CM::AcquireLock(_)) {
                        if let Some((ls, lp)) = last_ans.get(&op.client) {
                            if *ls > *seq && *lp < op.pos {
                                self.violate(
                                    "C13",
                                    "answer-order",
                                    "answers of one session arrived out of request order",
                                    format!("client {} request {}", op.client, op.raw),
                                );
                            }
                        }
                        last_ans.insert(op.client, (*seq, op.pos));
                    }
                }
            }
        }
    }
}

#[derive(Clone, Debug, Default)]
pub struct ReadBack {
    pub pget_all: Vec<worterbuch_common::KeyValuePair>,
    pub cgets: BTreeMap<String, Result<(Value, u64), u8>>,
    pub ls: BTreeMap<Option<String>, Result<Vec<String>, u8>>,
    pub entries_before: usize,
    pub entries_after: usize,
}

impl Checker<'_> {
    pub fn check_readback(&mut self, rp: &Replay, rb: &ReadBack) {
        let last = rp.states.last().cloned().unwrap_or_default();
        // registrations of sessions are part of the model, other $SYS keys are not
        let mut got: BTreeMap<String, Value> = BTreeMap::new();
        let mut dup = false;
        for kv in &rb.pget_all {
            if model::is_sys(&kv.key) && !is_registration_key(&kv.key) {
                continue;
            }
            if got.insert(kv.key.clone(), kv.value.clone()).is_some() {
                dup = true;
            }
        }
        let want: BTreeMap<String, Value> = last
            .map
            .iter()
            .filter(|(k, _)| !model::is_sys(k) || is_registration_key(k))
            .map(|(k, e)| (k.clone(), e.value.clone()))
            .collect();
        if dup {
            self.violate("C01", "readback-duplicate", "pget returned a key twice", String::new());
        }
        if got != want {
            let extra: Vec<_> = got.iter().filter(|(k, v)| want.get(*k) != Some(v)).collect();
            let missing: Vec<_> = want.iter().filter(|(k, v)| got.get(*k) != Some(v)).collect();
            let reg = extra.iter().any(|(k, _)| is_registration_key(k)) || missing.iter().any(|(k, _)| is_registration_key(k));
            self.violate(
                if reg { "C01" } else { "C01" },
                "readback-content",
                if reg {
                    "a request answered with an error left a changed own $SYS entry behind"
                } else {
                    "final content differs from the accepted writes"
                },
                format!("server has extra/different {:?}; model has extra/different {:?}", extra, missing),
            );
        }
        if rb.entries_before == rb.entries_after && rb.entries_after != rb.pget_all.len() {
            self.violate(
                "C01",
                "entry-count",
                "the entry count differs from the number of stored keys",
                format!("entries() = {}, pget(#) has {}", rb.entries_after, rb.pget_all.len()),
            );
        }
        for (k, r) in &rb.cgets {
            let want = last.cget(k);
            let ok = match (r, &want) {
                (Ok((v, ver)), Ans::CValue(wv, wver)) => v == wv && ver == wver,
                (Err(c), Ans::Err(cs)) => cs.contains(c),
                _ => false,
            };
            if !ok {
                // what cget returns at the end is C01's business (reads) as much as C02's (versions)
                for prop in ["C02", "C01"] {
                    self.violate(
                        prop,
                        "readback-cget",
                        "final value/version of a key differs from the accepted writes",
                        format!("cget {k}: server {:?}, model {:?}", r, want),
                    );
                }
            }
        }
        for (parent, r) in &rb.ls {
            if parent.as_deref().map(model::is_sys).unwrap_or(false) {
                continue;
            }
            let want = last.children(parent.as_deref());
            match (r, want) {
                (Ok(ch), Some(w)) => {
                    let g: BTreeSet<String> = ch.iter().filter(|c| *c != "$SYS").cloned().collect();
                    let w: BTreeSet<String> = w.into_iter().filter(|c| c != "$SYS").collect();
                    if g.len() != ch.iter().filter(|c| *c != "$SYS").count() {
                        self.violate("C05", "ls-duplicate", "ls listed a child twice", format!("{parent:?}"));
                    }
                    if g != w {
                        let phantom = g.difference(&w).count() > 0;
                        self.violate(
                            "C05",
                            "readback-ls",
                            if phantom {
                                "ls lists a child under which nothing is stored"
                            } else {
                                "ls misses an existing child"
                            },
                            format!("ls {parent:?}: server {:?}, model {:?}", g, w),
                        );
                    }
                }
                (Err(c), None) if *c == model::E_NO_SUCH_VALUE => {}
                (Ok(ch), None) => self.violate(
                    "C05",
                    "readback-ls",
                    "ls succeeds on a parent at or below which nothing is stored",
                    format!("ls {parent:?}: server {:?}", ch),
                ),
                (Err(c), Some(w)) => self.violate(
                    "C05",
                    "readback-ls",
                    "ls reports an error for a parent below which keys are stored",
                    format!("ls {parent:?}: server error {c}, model {:?}", w),
                ),
                (Err(c), None) => self.violate(
                    "C05",
                    "readback-ls",
                    "ls reports an unexpected error code",
                    format!("ls {parent:?}: error {c}"),
                ),
            }
        }
    }
}

/// `w[i]` deletes a `$SYS/locks/<key>` entry whose value names the holder. True if that holder is
/// another client whose own `$SYS/clients/<id>/…` entries are the next client entries to go, i.e.
/// the deletion is the first step of the holder's session end (the server releases the locks of
/// a session before anything else). A deletion caused by a grave good and the server's own one
/// are the same single event at the same position in that case, so it proves nothing either way.
fn lock_released_by_next_session_end(w: &[WEv], i: usize, cid: &str) -> bool {
    let Some(holder) = w[i].value.as_str() else { return false };
    if holder == cid {
        return false;
    }
    for e in &w[i + 1..] {
        if e.key.starts_with("$SYS/locks/") && e.del {
            continue;
        }
        if e.key == "$SYS/clients" {
            continue;
        }
        if let Some(rest) = e.key.strip_prefix("$SYS/clients/") {
            let id = rest.split('/').next().unwrap_or("");
            return id == holder && e.del;
        }
        return false;
    }
    false
}
