//! Run environment: one simulated execution = one fresh current-thread tokio runtime with a paused
//! clock, one `Sim` context, one run directory on tmpfs.

use serde::{Deserialize, Serialize};
use simcore::ctx::{self, Knobs, NodeId};
use simcore::Rng;
use std::collections::BTreeMap;
use std::future::Future;
use std::path::PathBuf;
use std::sync::{Arc, Mutex};
use std::time::Duration;
use tokio::sync::oneshot;
use worterbuch::server::CloneableWbApi;
use worterbuch::{Config, PersistenceMode, UnixEndpoint};

#[derive(Clone, Debug, Serialize, Deserialize, PartialEq)]
pub struct KnobSpec {
    pub p_defer: u32,
    pub p_stall: u32,
    pub max_stall_us: u64,
    pub lat_min_us: u64,
    pub lat_max_us: u64,
    pub p_frag: u32,
    pub frag_max: usize,
    pub p_io_pending: u32,
    pub pipe_capacity: usize,
    #[serde(default)]
    pub p_udp_drop: u32,
    #[serde(default)]
    pub p_udp_dup: u32,
    #[serde(default)]
    pub udp_lat_max_us: u64,
}

impl KnobSpec {
    pub fn calm() -> KnobSpec {
        KnobSpec {
            p_defer: 0,
            p_stall: 0,
            max_stall_us: 0,
            lat_min_us: 0,
            lat_max_us: 0,
            p_frag: 0,
            frag_max: 1,
            p_io_pending: 0,
            pipe_capacity: 1 << 16,
            p_udp_drop: 0,
            p_udp_dup: 0,
            udp_lat_max_us: 0,
        }
    }
    /// swarm-style: every run draws its own mix of scheduling and network disturbance
    pub fn draw(rng: &mut Rng) -> KnobSpec {
        let p_defer = *rng.pick(&[0, 0, 20, 100, 300]);
        let stall = rng.chance(1, 3);
        let lat = rng.chance(1, 2);
        let frag = rng.chance(1, 2);
        KnobSpec {
            p_defer,
            p_stall: if stall { *rng.pick(&[50, 300, 1500]) } else { 0 },
            max_stall_us: if stall { *rng.pick(&[200, 5_000, 200_000]) } else { 0 },
            lat_min_us: 0,
            lat_max_us: if lat { *rng.pick(&[50, 1_000, 30_000]) } else { 0 },
            p_frag: if frag { *rng.pick(&[100, 500, 1000]) } else { 0 },
            frag_max: *rng.pick(&[1, 3, 17, 200]),
            p_io_pending: *rng.pick(&[0, 0, 50, 300]),
            pipe_capacity: *rng.pick(&[64, 1024, 1 << 16, 1 << 16]),
            p_udp_drop: 0,
            p_udp_dup: 0,
            udp_lat_max_us: 0,
        }
    }
    pub fn to_knobs(&self) -> Knobs {
        Knobs {
            p_defer: self.p_defer,
            p_stall: self.p_stall,
            max_stall_us: self.max_stall_us,
            lat_min_us: self.lat_min_us,
            lat_max_us: self.lat_max_us,
            p_frag: self.p_frag,
            frag_max: self.frag_max,
            p_io_pending: self.p_io_pending,
            pipe_capacity: self.pipe_capacity,
            p_udp_drop: self.p_udp_drop,
            p_udp_dup: self.p_udp_dup,
            udp_lat_max_us: self.udp_lat_max_us,
        }
    }
}

#[derive(Clone, Debug, Serialize, Deserialize)]
pub struct Violation {
    pub property: String,
    pub rule: String,
    /// stable, input-independent class used for shrinking and for the known-findings file
    pub signature: String,
    pub detail: String,
}

#[derive(Clone, Debug, Default, Serialize, Deserialize)]
pub struct Outcome {
    pub violations: Vec<Violation>,
    pub probes: BTreeMap<String, u64>,
    pub nontrivial: bool,
    pub inconclusive: bool,
    pub sample: Option<serde_json::Value>,
    pub server_death: Option<String>,
    pub model_states: u64,
}

impl Outcome {
    pub fn probe(&mut self, name: &str) {
        *self.probes.entry(name.to_owned()).or_insert(0) += 1;
    }
    pub fn probe_n(&mut self, name: &str, n: u64) {
        *self.probes.entry(name.to_owned()).or_insert(0) += n;
    }
    pub fn violate(&mut self, property: &str, rule: &str, signature: &str, detail: String) {
        self.violations.push(Violation {
            property: property.to_owned(),
            rule: rule.to_owned(),
            signature: signature.to_owned(),
            detail,
        });
    }
}

#[derive(Clone, Debug, Default)]
pub struct RunStats {
    pub trace: u64,
    pub polls: u64,
    pub sim_us: u64,
    pub counters: BTreeMap<String, u64>,
    pub panics: Vec<(NodeId, String)>,
    pub log: Vec<String>,
}

thread_local! {
    static RUN_DIR: std::cell::RefCell<Option<PathBuf>> = const { std::cell::RefCell::new(None) };
}

pub fn run_dir() -> PathBuf {
    RUN_DIR.with(|d| d.borrow().clone().expect("run dir"))
}

fn base_dir() -> PathBuf {
    let base = std::env::var("WBSIM_TMP").unwrap_or_else(|_| "/dev/shm/wbsim".to_owned());
    PathBuf::from(base).join(format!("{}", std::process::id()))
}

pub fn cleanup_process_dir() {
    if std::env::var("WBSIM_KEEP").is_ok() {
        return;
    }
    let _ = std::fs::remove_dir_all(base_dir());
}

/// Execute one simulated run. `f` builds the root future; it runs as the harness node.
pub fn run_sim<F, Fut>(seed: u64, knobs: &KnobSpec, verbose: bool, f: F) -> (Outcome, RunStats)
where
    F: FnOnce() -> Fut,
    Fut: Future<Output = Outcome>,
{
    let dir = base_dir().join(format!("r{:016x}", seed));
    let _ = std::fs::remove_dir_all(&dir);
    std::fs::create_dir_all(&dir).expect("create run dir");
    RUN_DIR.with(|d| *d.borrow_mut() = Some(dir.clone()));
    crate::reset_process_globals();
    ctx::install(seed, knobs.to_knobs(), verbose);
    let rt = tokio::runtime::Builder::new_current_thread()
        .enable_all()
        .start_paused(true)
        .rng_seed(tokio::runtime::RngSeed::from_bytes(&seed.to_le_bytes()))
        .build()
        .expect("runtime");
    let outcome = rt.block_on(async {
        ctx::mark_start();
        f().await
    });
    let sim_us = {
        let _g = rt.enter();
        ctx::now_us()
    };
    // dropping the runtime drops every task (including those of killed nodes); I/O made by
    // destructors goes nowhere because the context is still installed and the nodes are marked
    rt.shutdown_timeout(Duration::from_millis(0));
    let sim = ctx::uninstall().expect("sim");
    if std::env::var("WBSIM_KEEP").is_err() {
        let _ = std::fs::remove_dir_all(&dir);
    }
    let stats = RunStats {
        trace: sim.trace,
        polls: sim.polls,
        sim_us,
        counters: sim
            .counters
            .iter()
            .map(|(k, v)| ((*k).to_owned(), *v))
            .collect(),
        panics: sim.panics.clone(),
        log: sim.log.unwrap_or_default(),
    };
    (outcome, stats)
}

pub struct ServerHandle {
    pub node: NodeId,
    pub api: CloneableWbApi,
    pub unix_path: PathBuf,
    pub data_dir: PathBuf,
    /// resolves when the node's root subsystem has terminated: Ok(clean) / Err(description)
    pub done: Arc<Mutex<Option<Result<(), String>>>>,
    pub shutdown: Option<oneshot::Sender<()>>,
    pub name: String,
}

impl ServerHandle {
    /// address of the node's simulated TCP client endpoint (only listening if the config enabled it)
    pub fn tcp_addr(&self) -> std::net::SocketAddr {
        std::net::SocketAddr::new(
            std::net::IpAddr::from([127, 0, 0, 1]),
            simcore::net::sim_tcp_port_of(self.node),
        )
    }
    pub fn death(&self) -> Option<String> {
        match self.done.lock().expect("done").as_ref() {
            Some(Err(e)) => Some(e.clone()),
            _ => None,
        }
    }
    pub fn finished(&self) -> bool {
        self.done.lock().expect("done").is_some()
    }
    /// ask for a clean shutdown (as SIGTERM would) and wait for it
    pub async fn stop(&mut self) -> Result<(), String> {
        if let Some(tx) = self.shutdown.take() {
            let _ = tx.send(());
        }
        for _ in 0..200_000 {
            if let Some(r) = self.done.lock().expect("done").clone() {
                return r;
            }
            tokio::time::sleep(Duration::from_millis(1)).await;
        }
        Err("shutdown did not complete within 200 simulated seconds".into())
    }
    pub fn kill(&self) {
        ctx::kill_node(self.node);
    }
}

pub async fn base_config() -> Config {
    let mut c = Config::new(None).await.expect("config");
    c.ws_endpoint = None;
    c.tcp_disabled = true;
    c.print_endpoints = false;
    c
}

/// Start a real worterbuch instance as a new simulated node.
pub async fn start_server(
    name: &str,
    tweak: impl FnOnce(&mut Config),
) -> Result<ServerHandle, String> {
    let data_dir = run_dir().join(name);
    start_server_in(name, data_dir, tweak).await
}

pub async fn start_server_in(
    name: &str,
    data_dir: PathBuf,
    tweak: impl FnOnce(&mut Config),
) -> Result<ServerHandle, String> {
    let mut config = base_config().await;
    config.persistence_mode = PersistenceMode::Json;
    start_server_cfg(name, data_dir, config, tweak).await
}

/// start an instance from a prepared `Config` (endpoints and data dir are still filled in here)
pub async fn start_server_cfg(
    name: &str,
    data_dir: PathBuf,
    mut config: Config,
    tweak: impl FnOnce(&mut Config),
) -> Result<ServerHandle, String> {
    std::fs::create_dir_all(&data_dir).map_err(|e| e.to_string())?;
    let node = ctx::add_node(name, data_dir.clone());
    let unix_path = data_dir.join(format!("{name}.{node}.sock"));
    config.ws_endpoint = None;
    config.tcp_disabled = true;
    config.print_endpoints = false;
    config.unix_endpoint = Some(UnixEndpoint {
        path: unix_path.clone(),
    });
    config.data_dir = data_dir.to_string_lossy().into_owned();
    tweak(&mut config);
    let (api_tx, api_rx) = oneshot::channel();
    let (sd_tx, sd_rx) = oneshot::channel::<()>();
    let done = Arc::new(Mutex::new(None));
    let done2 = done.clone();
    let nm = name.to_owned();
    simcore::chaos::spawn_on(node, async move {
        let res = tosub::build_root(nm)
            .catch_no_signals()
            .start(move |s| async move {
                let api = worterbuch::spawn_worterbuch(&s, config)
                    .await
                    .map_err(|e| miette::miette!("{e}"))?;
                let _ = api_tx.send(api);
                tokio::select! {
                    _ = s.shutdown_requested() => {},
                    _ = sd_rx => { s.request_global_shutdown(); },
                }
                Ok::<(), miette::Error>(())
            })
            .await;
        let r = match res {
            Ok(_) => Ok(()),
            Err(e) => Err(format!("{e}")),
        };
        *done2.lock().expect("done") = Some(r);
    });
    let api = match tokio::time::timeout(Duration::from_secs(30), api_rx).await {
        Ok(Ok(api)) => api,
        _ => {
            let d = done.lock().expect("done").clone();
            return Err(format!("server {name} did not start: {d:?}"));
        }
    };
    Ok(ServerHandle {
        node,
        api,
        unix_path,
        data_dir,
        done,
        shutdown: Some(sd_tx),
        name: name.to_owned(),
    })
}

/// Wait until the system is quiescent: a window longer than every injected delay (stall, latency)
/// plus `extra_us` (timers of the code under test that the scenario knows about) passes without
/// a single poll of any simulated task. Returns false if that never happened (run inconclusive).
pub async fn quiesce(knobs: &KnobSpec, extra_us: u64) -> bool {
    let w = knobs.max_stall_us + knobs.lat_max_us + extra_us + 2_000;
    for _ in 0..200 {
        let p0 = ctx::with(|s| s.polls);
        tokio::time::sleep(Duration::from_micros(w)).await;
        let p1 = ctx::with(|s| s.polls);
        if p1 == p0 {
            return true;
        }
    }
    false
}
