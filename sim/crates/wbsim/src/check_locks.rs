//! C06 oracle over the wire history: mutual exclusion by definite-hold intervals, acknowledged
//! releases only by (possible) holders, cancellation only with cause, no waiter left behind on a
//! free key. Everything asserted here follows from what clients saw, never from timing guesses.

use crate::check_wire::{Checker, OpRec, Replay, sm_code};
use crate::model;
use std::collections::{BTreeMap, BTreeSet};
use worterbuch_common::{ClientMessage as CM, ServerMessage as SM};

#[derive(Clone, Debug)]
struct Hold {
    client: usize,
    /// the client certainly holds the lock from here …
    from: u64,
    /// … to here (u64::MAX: still holding at the end of the run)
    to: u64,
    desc: String,
}

fn key_of(op: &OpRec) -> Option<(u8, String)> {
    match &op.req {
        Some(CM::Lock(l)) => Some((0, l.key.clone())),
        Some(CM::AcquireLock(l)) => Some((1, l.key.clone())),
        Some(CM::ReleaseLock(l)) => Some((2, l.key.clone())),
        _ => None,
    }
}

/// returns the ids of acquireLock requests that may legitimately still be waiting
pub fn check(
    ck: &mut Checker<'_>,
    rp: &Replay,
    alive: &BTreeSet<usize>,
    lock_probe: &BTreeMap<String, bool>,
) -> BTreeSet<usize> {
    let ops: Vec<OpRec> = ck.p.ops.clone();
    let mut pending_ok = BTreeSet::new();
    let mut keys: BTreeSet<String> = BTreeSet::new();
    for op in &ops {
        if let Some((_, k)) = key_of(op) {
            if model::has_wildcard(&k).is_none() {
                keys.insert(k);
            }
        }
    }
    // when did each session end, as seen from outside: the earliest moment the server may have
    // released its locks (client-initiated close) …
    let end_of = |c: usize| -> u64 {
        let ci = ck.p.clients.get(&c);
        ci.and_then(|x| x.closed_by_client.or(x.closed_seen)).unwrap_or(u64::MAX)
    };
    for key in keys {
        let mut holds: Vec<Hold> = vec![];
        let mut possible_holders_at_end: BTreeSet<usize> = BTreeSet::new();
        let clients: BTreeSet<usize> = ops
            .iter()
            .filter(|o| key_of(o).map(|(_, k)| k == key).unwrap_or(false))
            .map(|o| o.client)
            .collect();
        let mut waiting_at_end: Vec<&OpRec> = vec![];
        for c in &clients {
            let mine: Vec<&OpRec> = ops
                .iter()
                .filter(|o| o.client == *c && key_of(o).map(|(_, k)| k == key).unwrap_or(false))
                .collect();
            let session_end = end_of(*c);
            // grants of this client with the moment they were confirmed
            let mut grants: Vec<(u64, usize, String)> = vec![]; // (ack seq, pos, desc)
            let mut asked = false;
            for o in &mine {
                let (kind, _) = key_of(o).expect("lock op");
                let acked = matches!(o.ans, Some((_, SM::Ack(_))));
                let code = o.ans.as_ref().and_then(|a| sm_code(&a.1));
                match kind {
                    0 | 1 => {
                        asked = true;
                        if acked {
                            grants.push((o.ans.as_ref().expect("ans").0, o.pos, o.raw.clone()));
                        }
                        if kind == 1 && code == Some(model::E_LOCK_CANCELLED) {
                            // cancelled: needs a cause — a release by the same client sent after the
                            // acquire, or the end of the session
                            let released_later = mine.iter().any(|r| {
                                r.pos > o.pos && matches!(key_of(r), Some((2, _)))
                            });
                            let ended = session_end != u64::MAX || rp.ended.contains_key(c);
                            if !released_later && !ended {
                                ck.out.violate(
                                    "C06",
                                    "cancel-without-cause",
                                    "an acquire-lock request was cancelled although its client neither released nor left",
                                    format!("client {c}: {}", o.raw),
                                );
                            }
                        }
                        if kind == 1 && o.ans.is_none() {
                            waiting_at_end.push(o);
                        }
                    }
                    _ => {
                        if acked && !asked {
                            ck.out.violate(
                                "C06",
                                "release-by-stranger-acked",
                                "a release by a client that never asked for the lock was acknowledged",
                                format!("client {c}: {}", o.raw),
                            );
                        }
                    }
                }
            }
            // definite holds: from each grant confirmation to the moment the client *sent* the next
            // release that the server acknowledged (session order: a later request is processed
            // later), or the moment it closed its session
            grants.sort();
            for (ack_seq, pos, desc) in &grants {
                let next_release = mine
                    .iter()
                    .filter(|r| {
                        matches!(key_of(r), Some((2, _)))
                            && r.pos > *pos
                            && (matches!(r.ans, Some((_, SM::Ack(_)))) || r.ans.is_none())
                    })
                    .map(|r| r.inv)
                    .min()
                    .unwrap_or(u64::MAX);
                let to = next_release.min(session_end);
                if to > *ack_seq {
                    holds.push(Hold {
                        client: *c,
                        from: *ack_seq,
                        to,
                        desc: desc.clone(),
                    });
                }
                if to == u64::MAX {
                    possible_holders_at_end.insert(*c);
                }
            }
            // a client that asked and has unanswered or unreleased business may hold at the end
            if asked && alive.contains(c) {
                let unreleased = mine.iter().any(|o| {
                    matches!(key_of(o), Some((0 | 1, _)))
                        && matches!(o.ans, Some((_, SM::Ack(_))))
                        && !mine.iter().any(|r| {
                            matches!(key_of(r), Some((2, _)))
                                && r.pos > o.pos
                                && matches!(r.ans, Some((_, SM::Ack(_))))
                        })
                });
                if unreleased {
                    possible_holders_at_end.insert(*c);
                }
            }
        }
        // mutual exclusion
        holds.sort_by_key(|h| h.from);
        for (i, a) in holds.iter().enumerate() {
            for b in holds.iter().skip(i + 1) {
                if a.client != b.client && b.from < a.to && a.from < b.to {
                    ck.out.violate(
                        "C06",
                        "two-holders",
                        "two clients held the same key lock at the same time",
                        format!(
                            "key {key}: client {} holds [{}, {}] via {}, client {} holds [{}, {}] via {}",
                            a.client, a.from, a.to, a.desc, b.client, b.from, b.to, b.desc
                        ),
                    );
                }
            }
        }
        if !holds.is_empty() {
            ck.out.probe_n("lock_holds", holds.len() as u64);
        }
        let distinct: BTreeSet<usize> = holds.iter().map(|h| h.client).collect();
        if distinct.len() >= 2 {
            ck.out.probe("lock_handover_between_clients");
        }
        // first come, first served: if B's acquire was certainly processed before C's was even
        // sent, and B neither released, nor was cancelled, nor left, then C cannot be confirmed
        // while B's request is still unconfirmed (B becomes holder first and never lets go)
        let acquires: Vec<&OpRec> = ops
            .iter()
            .filter(|o| matches!(key_of(o), Some((1, k)) if k == key))
            .collect();
        for b in &acquires {
            // evidence that b was processed: a later request of the same session was answered
            let processed_by = ops
                .iter()
                .filter(|o| o.client == b.client && o.pos > b.pos)
                .filter_map(|o| o.ans.as_ref().map(|a| a.0))
                .min();
            let Some(processed_by) = processed_by else { continue };
            let b_answer = b.ans.as_ref().map(|a| a.0).unwrap_or(u64::MAX);
            let b_end = end_of(b.client);
            for c in &acquires {
                if c.client == b.client || c.inv < processed_by {
                    continue;
                }
                let Some((c_ack, SM::Ack(_))) = &c.ans else { continue };
                // a holder asking again is confirmed at once: not a case of overtaking
                let mut c_holds = false;
                for o in ops.iter().filter(|o| o.client == c.client && o.pos < c.pos) {
                    match key_of(o) {
                        Some((0 | 1, k)) if k == key && matches!(o.ans, Some((_, SM::Ack(_)))) => c_holds = true,
                        Some((0 | 1, k)) if k == key && o.ans.is_none() => c_holds = true,
                        Some((2, k)) if k == key && !matches!(o.ans.as_ref().and_then(|a| sm_code(&a.1)), Some(_)) => c_holds = false,
                        _ => {}
                    }
                }
                if c_holds {
                    continue;
                }
                // B still waiting (no answer of any kind) when C was confirmed?
                if b_answer < *c_ack || b_end < *c_ack {
                    continue;
                }
                // B gave up its place by a release sent before C's confirmation?
                let b_released = ops.iter().any(|r| {
                    r.client == b.client && r.pos > b.pos && r.inv < *c_ack && matches!(key_of(r), Some((2, k)) if k == key)
                });
                if b_released {
                    continue;
                }
                // B may already have been the holder when it asked again (immediate confirmation
                // still in flight) — then C's confirmation is a two-holders case, reported as such
                ck.out.violate(
                    "C06",
                    "fifo",
                    "a client that asked for a lock later was confirmed before a client that asked earlier and is still waiting",
                    format!(
                        "key {key}: client {} asked first ({}; certainly processed by seq {processed_by}), client {} asked at seq {} and was confirmed at seq {c_ack}",
                        b.client, b.raw, c.client, c.inv
                    ),
                );
            }
        }
        // a lock does not outlive the sessions that asked for it: if the server still has the key
        // locked at the end, some client that is still connected must be a possible holder
        if lock_probe.get(&key) == Some(&true) {
            // (connected as far as the history shows: neither side closed the session)
            let connected = |c: &usize| -> bool {
                alive.contains(c)
                    || ck
                        .p
                        .clients
                        .get(c)
                        .map(|ci| ci.closed_seen.is_none() && ci.closed_by_client.is_none() && ci.client_id.is_some())
                        .unwrap_or(false)
            };
            let live_candidates = possible_holders_at_end.iter().any(|c| connected(c))
                || waiting_at_end.iter().any(|o| connected(&o.client))
                || clients.iter().any(|c| connected(c) && {
                    // a live client with an unanswered lock request may hold it as well
                    ops.iter().any(|o| o.client == *c && matches!(key_of(o), Some((0 | 1, k)) if k == key) && o.ans.is_none())
                });
            if !live_candidates {
                let who: Vec<usize> = clients.iter().cloned().collect();
                for prop in ["C06", "C07"] {
                    ck.out.violate(
                        prop,
                        "lock-survives-session",
                        "a key is still locked although every session that asked for its lock has ended or released it",
                        format!("key {key}: clients that asked: {who:?}, none of them still connected"),
                    );
                }
            } else {
                ck.out.probe("lock_still_held_by_live_client_at_end");
            }
        } else if lock_probe.get(&key) == Some(&false) {
            ck.out.probe("lock_free_at_end");
        }
        // nobody left waiting on a free key
        for o in waiting_at_end {
            if !alive.contains(&o.client) {
                continue;
            }
            let others: BTreeSet<usize> = possible_holders_at_end
                .iter()
                .filter(|c| **c != o.client)
                .cloned()
                .collect();
            if others.is_empty() {
                // maybe the waiter cancelled itself by a later release (answered KeyIsLocked)
                let self_cancel = ops.iter().any(|r| {
                    r.client == o.client
                        && r.pos > o.pos
                        && matches!(key_of(r), Some((2, k)) if k == key)
                });
                if !self_cancel {
                    ck.out.violate(
                        "C06",
                        "waiter-left-behind",
                        "an acquire-lock request stays unanswered although nobody holds the key",
                        format!("client {}: {}", o.client, o.raw),
                    );
                }
            } else {
                pending_ok.insert(o.id);
            }
        }
    }
    let _ = BTreeMap::<u8, u8>::new();
    pending_ok
}
