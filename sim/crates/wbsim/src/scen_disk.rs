//! Persistence scenarios on the instrumented file system.
//!  * C09: flush (periodic tick or shutdown path) → stop → restart → exact read-back; legacy
//!    layouts v1/v2/v3 in both toggle states written by the harness; damaged primary slot.
//!  * C10: every file-system operation of a sampled flush as the crash point (torn `*.tmp` writes
//!    included), restart, recovered state ∈ {last completed flush, flush in progress}.
//!  * C18: ReDB backend, kill between any two polls of the writer task, recovered state must be
//!    a prefix of the applied single-key changes.

use crate::harness::{self, KnobSpec, Outcome, RunStats};
use crate::model::{self, Entry, Store};
use serde::{Deserialize, Serialize};
use serde_json::{Value, json};
use sha2::{Digest, Sha256};
use simcore::Rng;
use simcore::ctx::{self, FsFault, FsFaultKind};
use std::collections::BTreeMap;
use std::path::Path;
use std::time::Duration;
use worterbuch::PersistenceMode;
use worterbuch_common::{ClientId, INTERNAL_CLIENT_ID, Protocol, WbApi};

#[derive(Clone, Debug, Serialize, Deserialize, PartialEq)]
pub enum DOp {
    Set { c: usize, key: String, value: Value },
    CSet { c: usize, key: String, value: Value, version: u64 },
    Delete { c: usize, key: String },
    PDelete { c: usize, pattern: String },
    GraveGoods { c: usize, patterns: Vec<String> },
    LastWill { c: usize, kvs: Vec<(String, Value)> },
    Disconnect { c: usize },
    /// import a document carrying an entry with this CAS version (reaches versions cset cannot)
    ImportCas { key: String, value: Value, version: u64 },
}

#[derive(Clone, Debug, Serialize, Deserialize, PartialEq)]
pub enum Crash {
    None,
    /// every fs operation of the flush after phase `phase` (0-based), one run per crash point
    EnumerateFlush { phase: usize },
    /// crash right before fs operation #op of the node (torn: per-mille of a `*.tmp` write kept)
    At { op: u64, torn: u32 },
    /// redb: kill after `ops` operations were issued and `yields` further scheduler turns
    KillAfter { ops: usize, yields: u32 },
    /// stop cleanly (shutdown path flushes)
    CleanStop,
    /// every fs operation of the flush after phase `phase` fails once with an I/O error
    /// (ENOSPC / EIO alternating), one run per operation; the history goes on, then the node is killed
    EnumerateFlushErrors { phase: usize },
    /// fs operation #op of the node fails with `errno`
    ErrorAt { op: u64, errno: i32 },
}

#[derive(Clone, Debug, Serialize, Deserialize, PartialEq)]
pub enum Legacy {
    None,
    /// harness lays out the files of schema `version` from the first phase's model state
    Layout { version: u8, toggle: bool },
    /// v3 with a damaged primary slot: "missing" | "truncated" | "flipped" | "bad-checksum"
    Damaged { what: String, both: bool },
}

#[derive(Clone, Debug, Serialize, Deserialize, PartialEq)]
pub struct DiskPlan {
    pub focus: String,
    pub knobs: KnobSpec,
    pub redb: bool,
    pub interval_s: u64,
    pub channel_buffer_size: usize,
    pub n_clients: usize,
    pub phases: Vec<Vec<DOp>>,
    pub crash: Crash,
    pub legacy: Legacy,
    /// after the recovery: more phases in the second incarnation, each followed by a flush; the
    /// last flush is crashed at this many file-system operations after it began (None: completes),
    /// then a third incarnation loads (crash → restart → flush → crash → restart)
    pub chain: Option<(Vec<Vec<DOp>>, Option<u64>)>,
}

fn cid(c: usize) -> ClientId {
    ClientId::from_u128(0x1000_0000_0000_0000_0000_0000_0000_0000 + c as u128)
}

fn gen_ops(rng: &mut Rng, n_clients: usize, n: usize, tag: &mut usize, phase: usize, cas_bug_bait: bool) -> Vec<DOp> {
    let mut ops = vec![];
    // (key, value) of earlier writes of this phase: re-used for writes that keep the value but
    // change the kind or the version of the entry
    let mut written: Vec<(String, Value)> = vec![];
    for _ in 0..n {
        *tag += 1;
        let c = rng.below(n_clients as u64) as usize;
        let key = crate::wgen::key(rng, 3);
        let key = if key.is_empty() { "a".to_owned() } else { key };
        let val = |rng: &mut Rng, tag: usize| -> Value {
            match rng.below(14) {
                0 if cas_bug_bait => json!({"Cas": [format!("p{phase}_{tag}"), 3]}),
                1 => json!({"v": format!("p{phase}_{tag}"), "t": {"a": {"v": 1}}}),
                2 => json!([format!("p{phase}_{tag}"), null, 1.25]),
                3 => json!({"data": format!("p{phase}_{tag}")}),
                _ => json!(format!("p{phase}_{tag}")),
            }
        };
        let op = match rng.below(20) {
            0..=7 => {
                if !written.is_empty() && rng.chance(1, 10) {
                    // plain set of the value the key already holds
                    let (k, v) = rng.pick(&written).clone();
                    DOp::Set { c, key: k, value: v }
                } else {
                    let v = val(rng, *tag);
                    written.push((key.clone(), v.clone()));
                    DOp::Set { c, key, value: v }
                }
            }
            8..=10 => {
                if !written.is_empty() && rng.chance(1, 3) {
                    // conditional write that keeps the value: plain → CAS, or version + 1
                    let (k, v) = rng.pick(&written).clone();
                    DOp::CSet { c, key: k, value: v, version: *rng.pick(&[0u64, 0, 1, 2]) }
                } else {
                    let v = val(rng, *tag);
                    written.push((key.clone(), v.clone()));
                    DOp::CSet { c, key, value: v, version: *rng.pick(&[0u64, 0, 1, 2]) }
                }
            }
            11..=12 => DOp::Delete { c, key },
            13 => {
                let p = crate::wgen::pattern(rng, 3);
                let p = if p.starts_with('?') || p.starts_with('#') || p.is_empty() {
                    format!("a/{p}")
                } else {
                    p
                };
                DOp::PDelete { c, pattern: p }
            }
            14..=15 => {
                let k = rng.range(0, 2);
                let pats = (0..k)
                    .map(|_| {
                        // now and then a pattern that reaches for $SYS: literally (refused for a
                        // client, and must stay without effect when the server applies the
                        // registrations itself at shutdown or load) or through a leading wildcard
                        if rng.chance(1, 8) {
                            return rng
                                .pick(&["$SYS/clients/#", "$SYS/#", "$SYS/clients/?/lastWill", "$SYS/clients/?/graveGoods", "#", "?/#"])
                                .to_string();
                        }
                        let p = crate::wgen::pattern(rng, 3);
                        if p.is_empty() || model::has_inner_multi(&p) {
                            format!("b/{}", p.replace('#', "x"))
                        } else if (p.starts_with('?') || p.starts_with('#')) && rng.chance(1, 2) {
                            format!("b/{p}")
                        } else {
                            p
                        }
                    })
                    .collect();
                DOp::GraveGoods { c, patterns: pats }
            }
            16..=17 => {
                let k = rng.range(0, 2);
                let kvs = (0..k)
                    .map(|i| {
                        let k = crate::wgen::key(rng, 3);
                        let k = if k.is_empty() { "b".to_owned() } else { k };
                        let k = if rng.chance(1, 10) {
                            rng.pick(&["$SYS/version", "$SYS/clients", "$SYS/store/mode"]).to_string()
                        } else {
                            k
                        };
                        (k, json!(format!("lw{phase}_{tag}_{i}")))
                    })
                    .collect();
                DOp::LastWill { c, kvs }
            }
            18 => {
                if !written.is_empty() && rng.chance(1, 2) {
                    // re-states the value a key already holds, as a CAS entry with some version:
                    // only kind and version change
                    let (k, v) = rng.pick(&written).clone();
                    DOp::ImportCas { key: k, value: v, version: *rng.pick(&[1u64, 2, 7, u64::MAX - 1]) }
                } else {
                    DOp::ImportCas {
                        key,
                        value: json!(format!("imp{phase}_{tag}")),
                        version: *rng.pick(&[1u64, 7, u64::MAX - 1, u64::MAX]),
                    }
                }
            }
            _ => DOp::Disconnect { c },
        };
        ops.push(op);
    }
    ops
}

pub fn gen_plan(rng: &mut Rng, focus: &str, thorough: bool) -> DiskPlan {
    let mut knobs = if rng.chance(1, 3) { KnobSpec::calm() } else { KnobSpec::draw(rng) };
    // no network in these scenarios; keep stalls short so that flush timing stays aligned
    knobs.max_stall_us = knobs.max_stall_us.min(5_000);
    let n_clients = rng.range(1, 3) as usize;
    let mut tag = 0;
    let n_phases = match focus {
        "C10" => rng.range(2, if thorough { 5 } else { 4 }) as usize,
        "C18" => 1,
        _ => rng.range(1, 3) as usize,
    };
    let legacy = if focus == "C09" {
        match rng.below(8) {
            0 => Legacy::Layout { version: 1, toggle: false },
            1 => Legacy::Layout { version: 2, toggle: rng.chance(1, 2) },
            2 => Legacy::Layout { version: 3, toggle: rng.chance(1, 2) },
            3 => Legacy::Damaged {
                what: rng.pick(&["missing", "truncated", "flipped", "bad-checksum"]).to_string(),
                both: rng.chance(1, 4),
            },
            _ => Legacy::None,
        }
    } else {
        Legacy::None
    };
    let bait = focus == "C09" && legacy == Legacy::None;
    let mut phases = vec![];
    for ph in 0..n_phases {
        let n = rng.range(1, if focus == "C18" { 25 } else { 8 }) as usize;
        phases.push(gen_ops(rng, n_clients, n, &mut tag, ph, bait));
    }
    let redb = focus == "C18";
    let crash = match focus {
        // mostly a flush whose predecessor completed in the other slot; sometimes the very first
        // flush of a fresh directory (one slot has never been written then)
        "C10" => {
            let phase = if rng.chance(1, 5) { 0 } else { rng.range(1, n_phases as u64 - 1) as usize };
            if rng.chance(1, 8) {
                Crash::EnumerateFlushErrors { phase }
            } else {
                Crash::EnumerateFlush { phase }
            }
        }
        "C18" => {
            if rng.chance(1, 5) {
                Crash::CleanStop
            } else {
                let total = phases[0].len();
                Crash::KillAfter {
                    ops: rng.range(1, total as u64) as usize,
                    yields: rng.range(0, 12) as u32,
                }
            }
        }
        _ => {
            if rng.chance(1, 2) {
                Crash::CleanStop
            } else {
                Crash::None
            }
        }
    };
    let cyclic = focus == "C10" && rng.chance(1, 3);
    if cyclic {
        // content that returns to earlier states: one key toggling between a few fixed values
        let k = rng.range(2, 3) as usize;
        for (i, ph) in phases.iter_mut().enumerate() {
            *ph = vec![DOp::Set { c: 0, key: "t".into(), value: json!(["A", "B", "C"][i % k]) }];
        }
    }
    let chain = if focus == "C10" && rng.chance(1, 2) {
        let n = rng.range(1, 2) as usize;
        let mut cps = vec![];
        for i in 0..n {
            if cyclic {
                let k = rng.range(2, 3) as usize;
                cps.push(vec![DOp::Set { c: 0, key: "t".into(), value: json!(["A", "B", "C"][(phases.len() + i + rng.below(2) as usize) % k]) }]);
            } else {
                let m = rng.range(1, 4) as usize;
                cps.push(gen_ops(rng, n_clients, m, &mut tag, 9 + i, false));
            }
        }
        let crash = if rng.chance(1, 2) { Some(rng.range(1, 18)) } else { None };
        Some((cps, crash))
    } else {
        None
    };
    DiskPlan {
        focus: focus.to_owned(),
        knobs,
        redb,
        interval_s: *rng.pick(&[2u64, 5, 30]),
        channel_buffer_size: *rng.pick(&[1usize, 2, 16, 1000]),
        n_clients,
        phases,
        crash,
        legacy,
        chain,
    }
}

/// what a restart must produce from a flushed snapshot: store + that snapshot's grave goods, then
/// its last wills; the order *between clients* is not defined, so every order is a candidate
pub fn recovered_candidates(snap: &Store) -> Vec<BTreeMap<String, Entry>> {
    let mut ggs: Vec<Vec<String>> = vec![];
    let mut lws: Vec<Vec<worterbuch_common::KeyValuePair>> = vec![];
    for (k, e) in snap.map.iter() {
        if k.starts_with("$SYS/clients/") && k.ends_with("/graveGoods") {
            if let Ok(Some(g)) = serde_json::from_value::<Option<Vec<String>>>(e.value.clone()) {
                ggs.push(g);
            }
        }
        if k.starts_with("$SYS/clients/") && k.ends_with("/lastWill") {
            if let Ok(Some(l)) =
                serde_json::from_value::<Option<Vec<worterbuch_common::KeyValuePair>>>(e.value.clone())
            {
                lws.push(l);
            }
        }
    }
    fn perms<T: Clone>(xs: &[T]) -> Vec<Vec<T>> {
        if xs.len() <= 1 {
            return vec![xs.to_vec()];
        }
        let mut out = vec![];
        for i in 0..xs.len() {
            let mut rest = xs.to_vec();
            let x = rest.remove(i);
            for mut p in perms(&rest) {
                p.insert(0, x.clone());
                out.push(p);
            }
        }
        out
    }
    let mut out = vec![];
    for pg in perms(&ggs) {
        for pl in perms(&lws) {
            let mut s = Store {
                map: snap.user_view(),
            };
            for g in &pg {
                for pat in g {
                    let _ = s.pdelete(pat, "", true);
                }
            }
            for l in &pl {
                for kv in l {
                    let _ = s.set(&kv.key, &kv.value, "", true, true);
                }
            }
            let v = s.user_view();
            if !out.contains(&v) {
                out.push(v);
            }
        }
    }
    out
}

fn entry_json(e: &Entry) -> Value {
    match e.cas {
        Some(v) => json!({"Cas": [e.value, v]}),
        None => e.value.clone(),
    }
}

/// the on-disk tree document `{"data": node}` for a model state (user keys only)
fn store_doc(s: &Store) -> Value {
    fn insert(node: &mut serde_json::Map<String, Value>, segs: &[&str], e: &Entry) {
        if segs.is_empty() {
            node.insert("v".into(), entry_json(e));
            return;
        }
        let t = node
            .entry("t")
            .or_insert_with(|| Value::Object(Default::default()))
            .as_object_mut()
            .expect("t");
        let child = t
            .entry(segs[0].to_owned())
            .or_insert_with(|| Value::Object(Default::default()))
            .as_object_mut()
            .expect("child");
        insert(child, &segs[1..], e);
    }
    let mut root = serde_json::Map::new();
    for (k, e) in s.user_view() {
        let segs: Vec<&str> = k.split('/').collect();
        insert(&mut root, &segs, &e);
    }
    json!({"data": Value::Object(root)})
}

fn sha(data: &str) -> String {
    let mut h = Sha256::new();
    h.update(data.as_bytes());
    hex::encode(h.finalize())
}

fn gglw_doc(s: &Store) -> String {
    let mut gg: Vec<String> = vec![];
    let mut lw: Vec<Value> = vec![];
    for (k, e) in s.map.iter() {
        if k.starts_with("$SYS/clients/") && k.ends_with("/graveGoods") {
            if let Ok(Some(g)) = serde_json::from_value::<Option<Vec<String>>>(e.value.clone()) {
                gg.extend(g);
            }
        }
        if k.starts_with("$SYS/clients/") && k.ends_with("/lastWill") {
            if let Ok(Some(l)) = serde_json::from_value::<Option<Vec<Value>>>(e.value.clone()) {
                lw.extend(l);
            }
        }
    }
    json!({"grave_goods": gg, "last_will": lw}).to_string()
}

fn write_legacy(dir: &Path, s: &Store, version: u8, toggle: bool) {
    let doc = store_doc(s).to_string();
    let gglw = gglw_doc(s);
    let slot = if toggle { "a" } else { "b" };
    match version {
        1 => {
            std::fs::write(dir.join(".store.json"), &doc).expect("write");
            std::fs::write(dir.join(".store.sha"), sha(&doc)).expect("write");
        }
        2 => {
            if toggle {
                std::fs::write(dir.join(".toggle"), "").expect("write");
            }
            std::fs::write(dir.join(format!(".store.{slot}.json")), &doc).expect("write");
            std::fs::write(dir.join(format!(".gglw.{slot}.json")), &gglw).expect("write");
        }
        _ => {
            if toggle {
                std::fs::write(dir.join(".toggle"), "").expect("write");
            }
            std::fs::write(dir.join(format!("store.{slot}.json")), &doc).expect("write");
            std::fs::write(dir.join(format!("store.{slot}.json.sha256")), sha(&doc)).expect("write");
            std::fs::write(dir.join(format!("gglw.{slot}.json")), &gglw).expect("write");
            std::fs::write(dir.join(format!("gglw.{slot}.json.sha256")), sha(&gglw)).expect("write");
        }
    }
}

struct Driver {
    /// the server may have stopped itself (after an injected I/O error): failing calls end the
    /// history instead of being compared with the model
    tolerate_api_errors: bool,
    model: Store,
    /// model after every single-key change / registration change (C18 prefixes)
    prefixes: Vec<Store>,
    connected: Vec<bool>,
}

impl Driver {
    async fn ensure_connected(&mut self, api: &worterbuch::server::CloneableWbApi, c: usize) {
        if !self.connected[c] {
            let _ = api.connected(cid(c), None, Protocol::TCP).await;
            self.connected[c] = true;
        }
    }

    /// apply one operation through the server's API handle and to the model
    async fn apply(&mut self, api: &worterbuch::server::CloneableWbApi, op: &DOp, out: &mut Outcome) -> bool {
        let t = Duration::from_secs(20);
        macro_rules! call {
            ($f:expr) => {
                match tokio::time::timeout(t, $f).await {
                    Ok(r) => r,
                    Err(_) => return false,
                }
            };
        }
        match op {
            DOp::Set { c, key, value } => {
                self.ensure_connected(api, *c).await;
                let r = call!(api.set(key.clone(), value.clone(), cid(*c)));
                if self.tolerate_api_errors && matches!(&r, Err(e) if format!("{e:?}").contains("SendError")) {
                    return false;
                }
                let m = self.model.set(key, value, &cid(*c).to_string(), false, false);
                if r.is_ok() != (m == model::Ans::Ack) {
                    out.violate("C01", "disk-driver-answer", "API answer differs from the model", format!("{op:?}: {r:?} vs {m:?}"));
                }
                if r.is_ok() {
                    self.prefixes.push(self.model.clone());
                }
            }
            DOp::CSet { c, key, value, version } => {
                self.ensure_connected(api, *c).await;
                let r = call!(api.cset(key.clone(), value.clone(), *version, cid(*c)));
                if self.tolerate_api_errors && matches!(&r, Err(e) if format!("{e:?}").contains("SendError")) {
                    return false;
                }
                let m = self.model.cset(key, value, *version, &cid(*c).to_string(), false);
                if r.is_ok() != (m == model::Ans::Ack) {
                    out.violate("C02", "disk-driver-answer", "API answer differs from the model", format!("{op:?}: {r:?} vs {m:?}"));
                }
                if r.is_ok() {
                    self.prefixes.push(self.model.clone());
                }
            }
            DOp::Delete { c, key } => {
                self.ensure_connected(api, *c).await;
                let r = call!(api.delete(key.clone(), cid(*c)));
                let _ = self.model.delete(key, &cid(*c).to_string(), false);
                if r.is_ok() {
                    self.prefixes.push(self.model.clone());
                }
            }
            DOp::PDelete { c, pattern } => {
                self.ensure_connected(api, *c).await;
                let r = call!(api.pdelete(pattern.clone(), cid(*c)));
                if let Ok(kvs) = &r {
                    // single-key granularity in the order the server reports
                    for kv in kvs {
                        self.model.map.remove(&kv.key);
                        self.prefixes.push(self.model.clone());
                    }
                }
                let _ = self.model.pdelete(pattern, &cid(*c).to_string(), false);
            }
            DOp::GraveGoods { c, patterns } => {
                self.ensure_connected(api, *c).await;
                let key = format!("$SYS/clients/{}/graveGoods", cid(*c));
                let r = call!(api.set(key.clone(), json!(patterns), cid(*c)));
                if r.is_ok() {
                    let _ = self.model.set(&key, &json!(patterns), &cid(*c).to_string(), false, false);
                    self.prefixes.push(self.model.clone());
                }
            }
            DOp::LastWill { c, kvs } => {
                self.ensure_connected(api, *c).await;
                let key = format!("$SYS/clients/{}/lastWill", cid(*c));
                let v: Vec<Value> = kvs.iter().map(|(k, v)| json!({"key": k, "value": v})).collect();
                let r = call!(api.set(key.clone(), json!(v), cid(*c)));
                if r.is_ok() {
                    let _ = self.model.set(&key, &json!(v), &cid(*c).to_string(), false, false);
                    self.prefixes.push(self.model.clone());
                }
            }
            DOp::Disconnect { c } => {
                if self.connected[*c] {
                    let _ = call!(api.disconnected(cid(*c), None));
                    // wait until the core has processed it (ordered channel): any request will do
                    let _ = call!(api.entries());
                    self.connected[*c] = false;
                    // model: the session-end procedure
                    let id = cid(*c).to_string();
                    let gg: Option<Vec<String>> = self
                        .model
                        .map
                        .get(&format!("$SYS/clients/{id}/graveGoods"))
                        .and_then(|e| serde_json::from_value(e.value.clone()).ok());
                    let lw: Option<Vec<worterbuch_common::KeyValuePair>> = self
                        .model
                        .map
                        .get(&format!("$SYS/clients/{id}/lastWill"))
                        .and_then(|e| serde_json::from_value(e.value.clone()).ok());
                    let prefix = format!("$SYS/clients/{id}/");
                    let own: Vec<String> = self.model.map.keys().filter(|k| k.starts_with(&prefix)).cloned().collect();
                    for k in own {
                        self.model.map.remove(&k);
                    }
                    if let Some(gg) = gg {
                        for p in gg {
                            if let model::Ans::DeletedKvs(kvs) = self.model.clone().pdelete(&p, &id, false) {
                                for (k, _) in kvs {
                                    self.model.map.remove(&k);
                                    self.prefixes.push(self.model.clone());
                                }
                            }
                        }
                    }
                    if let Some(lw) = lw {
                        for kv in lw {
                            if self.model.set(&kv.key, &kv.value, &id, false, true) == model::Ans::Ack {
                                self.prefixes.push(self.model.clone());
                            }
                        }
                    }
                    self.prefixes.push(self.model.clone());
                }
            }
            DOp::ImportCas { key, value, version } => {
                let mut node = json!({"v": {"Cas": [value, version]}});
                for seg in key.split('/').rev() {
                    node = json!({"t": {seg: node}});
                }
                let doc = json!({"data": node}).to_string();
                let r = call!(api.import(doc));
                if r.is_ok() {
                    self.model.map.insert(key.clone(), Entry { value: value.clone(), cas: Some(*version) });
                    self.prefixes.push(self.model.clone());
                }
            }
        }
        true
    }
}

async fn read_user_state(api: &worterbuch::server::CloneableWbApi) -> Option<BTreeMap<String, Entry>> {
    let t = Duration::from_secs(20);
    let kvs = tokio::time::timeout(t, api.pget("#".to_owned())).await.ok()?.ok()?;
    let mut out = BTreeMap::new();
    for kv in kvs {
        if model::is_sys(&kv.key) {
            continue;
        }
        let (v, ver) = tokio::time::timeout(t, api.cget(kv.key.clone())).await.ok()?.ok()?;
        out.insert(
            kv.key.clone(),
            Entry {
                value: v,
                cas: if ver == 0 { None } else { Some(ver) },
            },
        );
    }
    Some(out)
}

fn count_flushes(node: u32) -> usize {
    ctx::with(|s| {
        s.nodes[node as usize]
            .fs_log
            .iter()
            .filter(|l| l.contains(" create ") && l.ends_with("last-persisted"))
            .count()
    })
}

/// wait (in simulated time) until the node completed one more flush or died
async fn wait_flush(node: u32, before: usize, max_s: u64) -> bool {
    for _ in 0..(max_s * 20) {
        if !ctx::with(|s| s.node_alive(node)) {
            return false;
        }
        if count_flushes(node) > before {
            return true;
        }
        tokio::time::sleep(Duration::from_millis(50)).await;
    }
    false
}

fn classify(got: &BTreeMap<String, Entry>, cands: &[(String, Vec<BTreeMap<String, Entry>>)]) -> Option<String> {
    for (name, cs) in cands {
        if cs.iter().any(|c| c == got) {
            return Some(name.clone());
        }
    }
    None
}

fn diff_desc(got: &BTreeMap<String, Entry>, want: &BTreeMap<String, Entry>) -> String {
    let mut d = vec![];
    for (k, e) in got {
        match want.get(k) {
            None => d.push(format!("+{k}={}", entry_json(e))),
            Some(w) if w != e => d.push(format!("~{k}: got {} want {}", entry_json(e), entry_json(w))),
            _ => {}
        }
    }
    for (k, e) in want {
        if !got.contains_key(k) {
            d.push(format!("-{k}={}", entry_json(e)));
        }
    }
    d.join(", ")
}

/// Is the difference explained by one of the catalogued serialisation defects?
fn diff_signature(got: &BTreeMap<String, Entry>, want: &BTreeMap<String, Entry>) -> Option<&'static str> {
    if got.keys().collect::<Vec<_>>() != want.keys().collect::<Vec<_>>() {
        return None;
    }
    let mut cas_shape = false;
    let mut version_reset = false;
    for (k, g) in got {
        let w = &want[k];
        if g == w {
            continue;
        }
        // plain value of the shape {"Cas":[x,n]} came back as CAS entry (x, n)
        if w.cas.is_none() {
            if let Some(c) = w.value.get("Cas").and_then(|c| c.as_array()) {
                if c.len() == 2 && w.value.as_object().map(|o| o.len() == 1).unwrap_or(false) && g.value == c[0] && g.cas == c[1].as_u64() {
                    cas_shape = true;
                    continue;
                }
            }
        }
        if g.value == w.value && w.cas.is_some() && g.cas == Some(1) {
            version_reset = true;
            continue;
        }
        return None;
    }
    if cas_shape && !version_reset {
        Some("a plain value of the shape {\"Cas\":[x,n]} is reloaded as a CAS entry")
    } else if version_reset && !cas_shape {
        Some("CAS versions are reset to 1 by a reload")
    } else {
        None
    }
}

pub struct OneResult {
    pub out: Outcome,
    pub fs_log: Vec<String>,
    pub flush_ranges: Vec<(u64, u64)>,
}

/// one simulated execution of the plan with (at most) one crash point
pub async fn run_once(plan: DiskPlan, crash: Crash) -> (Outcome, Vec<String>) {
    let mut out = Outcome::default();
    let focus = plan.focus.clone();
    let redb = plan.redb;
    let interval = plan.interval_s;
    let cbs = plan.channel_buffer_size;
    let dir = harness::run_dir().join("data");
    std::fs::create_dir_all(&dir).expect("data dir");
    let mut drv = Driver {
        tolerate_api_errors: matches!(crash, Crash::ErrorAt { .. }),
        model: Store::default(),
        prefixes: vec![Store::default()],
        connected: vec![false; plan.n_clients],
    };

    // ---- legacy layouts: files written by the harness, then loaded by a fresh instance
    if let Legacy::Layout { version, toggle } = &plan.legacy {
        // build the state in the model only
        let mut tmp = Store::default();
        for op in plan.phases.first().cloned().unwrap_or_default() {
            match op {
                DOp::Set { c, key, value } => {
                    let _ = tmp.set(&key, &value, &cid(c).to_string(), false, false);
                }
                DOp::CSet { c, key, value, version } => {
                    let _ = tmp.cset(&key, &value, version, &cid(c).to_string(), false);
                }
                DOp::ImportCas { key, value, version } => {
                    tmp.map.insert(key, Entry { value, cas: Some(version) });
                }
                DOp::GraveGoods { c, patterns } if *version >= 2 => {
                    tmp.map.insert(format!("$SYS/clients/{}/graveGoods", cid(c)), Entry { value: json!(patterns), cas: None });
                }
                DOp::LastWill { c, kvs } if *version >= 2 => {
                    let v: Vec<Value> = kvs.iter().map(|(k, v)| json!({"key": k, "value": v})).collect();
                    tmp.map.insert(format!("$SYS/clients/{}/lastWill", cid(c)), Entry { value: json!(v), cas: None });
                }
                _ => {}
            }
        }
        write_legacy(&dir, &tmp, *version, *toggle);
        let srv = harness::start_server_in("wb", dir.clone(), move |c| {
            c.use_persistence = true;
            c.persistence_mode = PersistenceMode::Json;
            c.persistence_interval = Duration::from_secs(3600);
        })
        .await;
        let Ok(srv) = srv else {
            out.violate(&focus, "restart-failed", "instance does not start on a persisted directory", format!("legacy v{version}"));
            return (out, vec![]);
        };
        let got = read_user_state(&srv.api).await.unwrap_or_default();
        let cands = recovered_candidates(&tmp);
        out.nontrivial = tmp.map.values().any(|e| e.cas.is_some());
        out.probe(&format!("legacy_layout_v{version}_toggle_{toggle}"));
        if !cands.iter().any(|c| c == &got) {
            let store_only = Store { map: tmp.user_view() };
            let sig = if recovered_candidates(&store_only).iter().any(|c| c == &got) && *version == 2 {
                "a directory in the v2 layout is loaded without its grave goods and last wills"
            } else {
                diff_signature(&got, &cands[0]).unwrap_or("state loaded from an older persistence layout differs from what was stored")
            };
            out.violate("C09", "legacy-load", sig, format!("v{version} toggle={toggle}: {}", diff_desc(&got, &cands[0])));
        }
        out.sample = Some(json!({"legacy": version, "toggle": toggle, "keys": got.len()}));
        return (out, vec![]);
    }

    // ---- first incarnation
    let mode = if redb { PersistenceMode::ReDB } else { PersistenceMode::Json };
    let mode2 = mode.clone();
    let srv = harness::start_server_in("wb", dir.clone(), move |c| {
        c.use_persistence = true;
        c.persistence_mode = mode2;
        c.persistence_interval = Duration::from_secs(interval);
        c.channel_buffer_size = cbs;
    })
    .await;
    let mut srv = match srv {
        Ok(s) => s,
        Err(e) => {
            out.violate(&focus, "startup", "server did not start", e);
            return (out, vec![]);
        }
    };
    let node = srv.node;
    ctx::with(|s| s.nodes[node as usize].record_fs_log = true);
    if let Crash::At { op, torn } = &crash {
        ctx::with(|s| {
            s.nodes[node as usize].fs_plan.push(FsFault {
                at_op: *op,
                kind: FsFaultKind::Crash { torn_permille: *torn },
            })
        });
    }
    if let Crash::ErrorAt { op, errno } = &crash {
        ctx::with(|s| {
            s.nodes[node as usize].fs_plan.push(FsFault {
                at_op: *op,
                kind: FsFaultKind::Error { errno: *errno },
            })
        });
    }
    let error_mode = matches!(crash, Crash::ErrorAt { .. });
    // index of the first flush that did not complete (error mode)
    let mut first_failed_flush: Option<usize> = None;
    // snapshots[j] = model when flush j (0-based) exported
    let mut snapshots: Vec<Store> = vec![];
    let mut flush_ranges: Vec<(u64, u64)> = vec![];
    let mut died = false;
    let mut issued = 0usize;
    'phases: for (pi, ops) in plan.phases.iter().enumerate() {
        for op in ops {
            if let Crash::KillAfter { ops: k, yields } = &crash {
                if issued == *k {
                    for _ in 0..*yields {
                        tokio::task::yield_now().await;
                    }
                    ctx::kill_node(node);
                    died = true;
                    break 'phases;
                }
            }
            if !drv.apply(&srv.api, op, &mut out).await {
                died = !ctx::with(|s| s.node_alive(node));
                if !died && !error_mode {
                    out.inconclusive = true;
                }
                // (error mode: the server may have shut itself down after the failed flush)
                break 'phases;
            }
            issued += 1;
        }
        if !redb {
            let before = count_flushes(node);
            let f0 = ctx::with(|s| s.nodes[node as usize].fs_ops);
            snapshots.push(drv.model.clone());
            // (after a failed flush the periodic task may be gone: do not wait three intervals again)
            let max_wait = if first_failed_flush.is_some() { interval + 2 } else { interval * 3 + 10 };
            let ok = wait_flush(node, before, max_wait).await;
            let f1 = ctx::with(|s| s.nodes[node as usize].fs_ops);
            flush_ranges.push((f0 + 1, f1));
            if !ok {
                died = !ctx::with(|s| s.node_alive(node));
                if error_mode && !died {
                    // the flush failed; whether later ones still happen is up to the server
                    first_failed_flush.get_or_insert(pi);
                    out.probe("flush_failed_with_io_error");
                    continue 'phases;
                }
                if !died {
                    out.inconclusive = true;
                }
                break 'phases;
            }
            out.probe("flushes_completed");
        }
    }
    if let Crash::KillAfter { .. } = &crash {
        if !died {
            ctx::kill_node(node);
            died = true;
        }
    }
    let fs_log = ctx::with(|s| s.nodes[node as usize].fs_log.clone());
    // remember the flush ranges for the enumerator
    out.sample = Some(json!({"flush_ranges": flush_ranges, "fs_ops": fs_log.len()}));

    // ---- end of the first incarnation
    let mut expected: Vec<(String, Vec<BTreeMap<String, Entry>>)> = vec![];
    let clean = matches!(crash, Crash::CleanStop);
    if clean {
        // shutdown path: grave goods and last wills of connected clients are applied, then flushed
        let r = srv.stop().await;
        if let Err(e) = r {
            out.violate(&focus, "clean-stop-failed", "clean shutdown failed", e);
            return (out, fs_log);
        }
        expected.push(("state at clean stop".into(), recovered_candidates(&drv.model)));
    } else if died {
        if redb {
            // any prefix of the single-key changes
            for (i, p) in drv.prefixes.iter().enumerate() {
                expected.push((format!("prefix {i}"), recovered_candidates(p)));
            }
        } else {
            let n = snapshots.len();
            // the flush in progress is the last one started; the last completed its predecessor
            if n >= 1 {
                expected.push((format!("flush {} (in progress)", n - 1), recovered_candidates(&snapshots[n - 1])));
            }
            if n >= 2 {
                expected.push((format!("flush {} (last completed)", n - 2), recovered_candidates(&snapshots[n - 2])));
            } else {
                expected.push(("nothing flushed yet".into(), vec![BTreeMap::new()]));
            }
        }
    } else if error_mode {
        // kill -9 some time after an I/O error inside a flush: whatever completed before the
        // failed flush must not be lost; later flushes (the server may go on flushing, or flush
        // once more while shutting down) are acceptable as well - each as a whole
        ctx::kill_node(node);
        let from = first_failed_flush.map(|f| f.saturating_sub(1)).unwrap_or(snapshots.len().saturating_sub(1));
        if first_failed_flush == Some(0) || snapshots.is_empty() {
            expected.push(("nothing flushed yet".into(), vec![BTreeMap::new()]));
        }
        for (j, s) in snapshots.iter().enumerate().skip(from) {
            expected.push((format!("flush {j}"), recovered_candidates(s)));
        }
        expected.push(("state at the end".into(), recovered_candidates(&drv.model)));
    } else {
        // no crash: kill -9 after the last completed flush (the state on disk is that flush)
        ctx::kill_node(node);
        if redb {
            for (i, p) in drv.prefixes.iter().enumerate() {
                expected.push((format!("prefix {i}"), recovered_candidates(p)));
            }
        } else if let Some(last) = snapshots.last() {
            expected.push(("last flush".into(), recovered_candidates(last)));
        } else {
            expected.push(("nothing flushed".into(), vec![BTreeMap::new()]));
        }
    }

    // ---- damage the primary slot (C09 fallback chain): expected = other slot or empty, never garbage
    let mut damaged = false;
    if let Legacy::Damaged { what, both } = &plan.legacy {
        if !redb && snapshots.len() >= 1 && !clean && !died {
            damaged = true;
            let toggle = dir.join(".toggle").exists();
            let slot = if toggle { "a" } else { "b" };
            let other = if toggle { "b" } else { "a" };
            let p = dir.join(format!("store.{slot}.json"));
            let damage = |p: &Path| match what.as_str() {
                "missing" => {
                    let _ = std::fs::remove_file(p);
                }
                "truncated" => {
                    if let Ok(d) = std::fs::read(p) {
                        let _ = std::fs::write(p, &d[..d.len() / 2]);
                    }
                }
                "flipped" => {
                    if let Ok(mut d) = std::fs::read(p) {
                        if !d.is_empty() {
                            let i = d.len() / 3;
                            d[i] ^= 0x01;
                        }
                        let _ = std::fs::write(p, &d);
                    }
                }
                _ => {
                    let _ = std::fs::write(format!("{}.sha256", p.display()), "00");
                }
            };
            damage(&p);
            if *both {
                damage(&dir.join(format!("store.{other}.json")));
            }
            // acceptable: the other slot's store (the previous flush) or an empty store — never a
            // parse of the damaged file. Which slot the registrations come from after a store-slot
            // fallback is not something the statements settle: any complete registration file counts.
            let n = snapshots.len();
            expected.clear();
            let mut stores: Vec<Store> = vec![Store::default()];
            if n >= 2 && !*both {
                stores.push(snapshots[n - 2].clone());
            }
            let mut cands = vec![];
            for st in &stores {
                for regs in snapshots.iter().rev().take(2).chain(std::iter::once(&Store::default())) {
                    let mut mixed = Store { map: st.user_view() };
                    for (k, e) in regs.map.iter().filter(|(k, _)| model::is_sys(k)) {
                        mixed.map.insert(k.clone(), e.clone());
                    }
                    cands.extend(recovered_candidates(&mixed));
                }
            }
            expected.push(("previous flush or empty store (with complete registrations)".into(), cands));
            out.probe(&format!("damaged_primary_{what}"));
        }
    }

    // ---- second incarnation on the same directory (redb: on a copy of the database file)
    let dir2 = if redb {
        let d2 = harness::run_dir().join("data2");
        std::fs::create_dir_all(&d2).expect("dir2");
        let _ = std::fs::copy(dir.join("worterbuch.re.db"), d2.join("worterbuch.re.db"));
        d2
    } else {
        dir.clone()
    };
    let mode3 = mode.clone();
    let srv2 = harness::start_server_in("wb2", dir2.clone(), move |c| {
        c.use_persistence = true;
        c.persistence_mode = mode3;
        c.persistence_interval = Duration::from_secs(interval);
        c.channel_buffer_size = cbs;
    })
    .await;
    let srv2 = match srv2 {
        Ok(s) => s,
        Err(e) => {
            out.violate(&focus, "restart-failed", "instance does not start after a crash", e);
            return (out, fs_log);
        }
    };
    let Some(got) = read_user_state(&srv2.api).await else {
        out.violate(&focus, "restart-failed", "instance does not answer after a restart", String::new());
        return (out, fs_log);
    };
    match classify(&got, &expected) {
        Some(which) => {
            out.probe(&format!("recovered_{}", which.split(' ').next().unwrap_or("x")));
            if which.contains("in progress") {
                out.probe("recovered_flush_in_progress");
            }
            if which.contains("last completed") {
                out.probe("recovered_last_completed_flush");
            }
        }
        None => {
            // closest candidate for the description
            let first = expected.first().and_then(|e| e.1.first()).cloned().unwrap_or_default();
            let mut sig: String = match focus.as_str() {
                "C10" => "after a crash inside a flush the recovered state is neither the last completed flush nor the one in progress".into(),
                "C18" => "state recovered from the ReDB file is not a prefix of the applied changes".into(),
                _ => {
                    if damaged {
                        "a damaged persistence slot was loaded instead of falling back".into()
                    } else {
                        "state after flush and restart differs from the state at the flush".into()
                    }
                }
            };
            // catalogued serialisation defects get their own signature
            for (_, cs) in &expected {
                for c in cs {
                    if let Some(s) = diff_signature(&got, c) {
                        sig = s.to_owned();
                    }
                }
            }
            // older snapshot? registrations of another snapshot?
            if focus == "C10" {
                for (j, s) in snapshots.iter().enumerate() {
                    if recovered_candidates(s).iter().any(|c| c == &got) {
                        sig = "after a crash inside a flush an older snapshot than the last completed flush is recovered".into();
                        out.probe(&format!("recovered_older_snapshot_{j}"));
                    }
                }
                if !sig.contains("older") {
                    // store of one snapshot with the registrations of another one (or of none)?
                    let none = Store::default();
                    let all: Vec<&Store> = snapshots.iter().chain(std::iter::once(&none)).collect();
                    'mix: for (ai, a) in all.iter().enumerate() {
                        for (bi, b) in all.iter().enumerate() {
                            if ai == bi {
                                continue;
                            }
                            let mut mixed = Store { map: a.user_view() };
                            for (k, e) in b.map.iter().filter(|(k, _)| model::is_sys(k)) {
                                mixed.map.insert(k.clone(), e.clone());
                            }
                            if recovered_candidates(&mixed).iter().any(|c| c == &got) {
                                sig = "after a crash inside a flush the store of one snapshot is combined with the grave goods / last wills of another".into();
                                break 'mix;
                            }
                        }
                    }
                }
            }
            let names: Vec<&String> = expected.iter().map(|e| &e.0).collect();
            if error_mode {
                // I/O errors are outside the crash model the property states (process death with
                // completed operations durable): what they lead to is recorded as an observation
                // in the evidence, never as a violation
                out.probe("observation_state_after_io_error_is_not_a_completed_flush");
                out.sample = Some(json!({
                    "observation": "after an I/O error inside a flush (not a crash) and a later kill, the recovered state is none of the flushes that completed since",
                    "fault": format!("{crash:?}"),
                    "acceptable": names,
                    "difference_to_first": diff_desc(&got, &first),
                    "classified_as": sig,
                }));
                return (out, fs_log);
            }
            out.violate(
                &focus,
                "recovered-state",
                &sig,
                format!("crash {crash:?}; acceptable: {names:?}; difference to the first: {}", diff_desc(&got, &first)),
            );
        }
    }
    if error_mode {
        // the chain belongs to the crash model
        return (out, fs_log);
    }
    // ---- chain: the second incarnation flushes (and possibly crashes) as well
    if let (Some((cphases, ccrash)), false, true) = (&plan.chain, redb, out.violations.is_empty() && !out.inconclusive) {
        let node2 = srv2.node;
        ctx::with(|s| s.nodes[node2 as usize].record_fs_log = true);
        let mut drv2 = Driver {
            tolerate_api_errors: false,
            model: Store { map: got.clone() },
            prefixes: vec![],
            connected: vec![false; plan.n_clients],
        };
        let mut on_disk = drv2.model.clone();
        let mut in_progress: Option<Store> = None;
        let mut died2 = false;
        for (ci, ops) in cphases.iter().enumerate() {
            for op in ops {
                if !drv2.apply(&srv2.api, op, &mut out).await {
                    died2 = !ctx::with(|s| s.node_alive(node2));
                    break;
                }
            }
            if died2 {
                break;
            }
            let last = ci + 1 == cphases.len();
            let before = count_flushes(node2);
            in_progress = Some(drv2.model.clone());
            if let (true, Some(off)) = (last, ccrash) {
                let base = ctx::with(|s| s.nodes[node2 as usize].fs_ops);
                ctx::with(|s| {
                    s.nodes[node2 as usize].fs_plan.push(FsFault {
                        at_op: base + *off,
                        kind: FsFaultKind::Crash { torn_permille: 0 },
                    })
                });
            }
            let ok = wait_flush(node2, before, interval * 3 + 10).await;
            if ok {
                // a crash point beyond the end of this flush must not hit a later one
                ctx::with(|s| s.nodes[node2 as usize].fs_plan.clear());
                on_disk = drv2.model.clone();
                in_progress = None;
                out.probe("chain_flush_completed");
            } else {
                died2 = !ctx::with(|s| s.node_alive(node2));
                if !died2 {
                    out.inconclusive = true;
                }
                break;
            }
        }
        if !died2 {
            ctx::kill_node(node2);
        } else {
            out.probe("chain_second_crash_inside_flush");
        }
        let mode4 = mode.clone();
        let srv3 = harness::start_server_in("wb3", dir2.clone(), move |c| {
            c.use_persistence = true;
            c.persistence_mode = mode4;
            c.persistence_interval = Duration::from_secs(interval);
            c.channel_buffer_size = cbs;
        })
        .await;
        match srv3 {
            Err(e) => out.violate(&focus, "restart-failed", "instance does not start after a second crash", e),
            Ok(srv3) => {
                if let Some(got3) = read_user_state(&srv3.api).await {
                    let mut exp: Vec<(String, Vec<BTreeMap<String, Entry>>)> =
                        vec![("last completed flush".into(), recovered_candidates(&on_disk))];
                    if let Some(ip) = &in_progress {
                        exp.push(("flush in progress".into(), recovered_candidates(ip)));
                    }
                    if classify(&got3, &exp).is_none() {
                        let first = exp[0].1.first().cloned().unwrap_or_default();
                        let older = snapshots.iter().any(|s| recovered_candidates(s).iter().any(|c| c == &got3))
                            || got3.is_empty() && !first.is_empty();
                        let sig = if older {
                            "after crash, restart, flush and another crash an older snapshot than the last completed flush (or nothing) is recovered"
                        } else {
                            "after crash, restart, flush and another crash the recovered state is neither the last completed flush nor the one in progress"
                        };
                        out.violate(
                            &focus,
                            "recovered-state-chain",
                            sig,
                            format!("first crash {crash:?}, second crash {ccrash:?}; difference to the last completed flush: {}", diff_desc(&got3, &first)),
                        );
                    } else {
                        out.probe("chain_recovery_ok");
                    }
                }
            }
        }
    }
    out.nontrivial = match focus.as_str() {
        "C10" => (died || first_failed_flush.is_some()) && snapshots.len() >= 2,
        "C18" => drv.prefixes.len() >= 3,
        _ => drv.model.map.values().any(|e| e.cas.is_some()) || drv.model.map.keys().any(|k| model::is_sys(k)),
    };
    out.model_states = drv.prefixes.len() as u64;
    let _ = INTERNAL_CLIENT_ID;
    (out, fs_log)
}

/// All crash points of one history (or a single run for the other modes).
pub fn run(plan: &DiskPlan, seed: u64, verbose: bool) -> (Outcome, RunStats) {
    match &plan.crash {
        Crash::EnumerateFlush { phase } => {
            // baseline: learn the file-system operations of the chosen flush
            let p0 = plan.clone();
            let log = std::sync::Arc::new(std::sync::Mutex::new((vec![], Value::Null)));
            let l2 = log.clone();
            let (mut agg, mut stats) = harness::run_sim(seed, &plan.knobs, false, move || async move {
                let (o, fs) = run_once(p0, Crash::None).await;
                *l2.lock().expect("log") = (fs, o.sample.clone().unwrap_or_default());
                o
            });
            let (fs_log, sample) = log.lock().expect("log").clone();
            let ranges: Vec<(u64, u64)> = serde_json::from_value(sample["flush_ranges"].clone()).unwrap_or_default();
            let Some((from, to)) = ranges.get(*phase).cloned() else {
                agg.inconclusive = true;
                return (agg, stats);
            };
            let mut sub = 1u64;
            let mut points = vec![];
            for op in from..=to {
                let line = fs_log.get(op as usize - 1).cloned().unwrap_or_default();
                points.push((op, 0u32));
                if line.contains(" write ") && line.ends_with(".tmp") {
                    points.push((op, 500));
                    points.push((op, 1));
                }
            }
            agg.probe_n("crash_points_enumerated", points.len() as u64);
            let mut any_nt = false;
            for (op, torn) in points {
                let p = plan.clone();
                let c = Crash::At { op, torn };
                let (o, st) = harness::run_sim(seed, &plan.knobs, verbose, move || async move { run_once(p, c).await.0 });
                sub += 1;
                stats.sim_us += st.sim_us;
                stats.polls += st.polls;
                stats.trace ^= st.trace.rotate_left((op % 63) as u32);
                for (k, v) in st.counters {
                    *stats.counters.entry(k).or_insert(0) += v;
                }
                for (k, v) in &o.probes {
                    agg.probe_n(k, *v);
                }
                any_nt |= o.nontrivial;
                for mut v in o.violations {
                    v.detail = format!("[crash before fs op #{op} ({}), torn={torn}] {}", fs_log.get(op as usize - 1).cloned().unwrap_or_default(), v.detail);
                    if !agg.violations.iter().any(|x| x.signature == v.signature && x.property == v.property) {
                        agg.violations.push(v);
                    }
                }
            }
            agg.nontrivial = any_nt;
            agg.probe_n("sub_runs", sub);
            agg.sample = Some(json!({"flush_ops": fs_log[(from as usize - 1)..(to as usize).min(fs_log.len())].to_vec()}));
            (agg, stats)
        }
        Crash::EnumerateFlushErrors { phase } => {
            let p0 = plan.clone();
            let log = std::sync::Arc::new(std::sync::Mutex::new((vec![], Value::Null)));
            let l2 = log.clone();
            let (mut agg, mut stats) = harness::run_sim(seed, &plan.knobs, false, move || async move {
                let (o, fs) = run_once(p0, Crash::None).await;
                *l2.lock().expect("log") = (fs, o.sample.clone().unwrap_or_default());
                o
            });
            let (fs_log, sample) = log.lock().expect("log").clone();
            let ranges: Vec<(u64, u64)> = serde_json::from_value(sample["flush_ranges"].clone()).unwrap_or_default();
            let Some((from, to)) = ranges.get(*phase).cloned() else {
                agg.inconclusive = true;
                return (agg, stats);
            };
            let mut sub = 1u64;
            let mut any_nt = false;
            for op in from..=to {
                let errno = if op % 2 == 0 { 28 } else { 5 }; // ENOSPC / EIO
                let p = plan.clone();
                let c = Crash::ErrorAt { op, errno };
                let (o, st) = harness::run_sim(seed, &plan.knobs, verbose, move || async move { run_once(p, c).await.0 });
                sub += 1;
                stats.sim_us += st.sim_us;
                stats.polls += st.polls;
                stats.trace ^= st.trace.rotate_left((op % 63) as u32);
                for (k, v) in st.counters {
                    *stats.counters.entry(k).or_insert(0) += v;
                }
                for (k, v) in &o.probes {
                    agg.probe_n(k, *v);
                }
                any_nt |= o.nontrivial;
                for mut v in o.violations {
                    v.detail = format!("[errno {errno} at fs op #{op} ({})] {}", fs_log.get(op as usize - 1).cloned().unwrap_or_default(), v.detail);
                    if !agg.violations.iter().any(|x| x.signature == v.signature && x.property == v.property) {
                        agg.violations.push(v);
                    }
                }
            }
            agg.nontrivial = any_nt;
            agg.probe_n("error_points_enumerated", to - from + 1);
            agg.probe_n("sub_runs", sub);
            (agg, stats)
        }
        c => {
            let p = plan.clone();
            let c = c.clone();
            harness::run_sim(seed, &plan.knobs, verbose, move || async move { run_once(p, c).await.0 })
        }
    }
}

pub fn shrink(plan: &DiskPlan) -> Vec<DiskPlan> {
    let mut out = vec![];
    if let Crash::EnumerateFlushErrors { .. } = &plan.crash {
        for op in 1..=160u64 {
            for errno in [28, 5] {
                let mut p = plan.clone();
                p.crash = Crash::ErrorAt { op, errno };
                out.push(p);
            }
        }
        return out;
    }
    if let Crash::EnumerateFlush { .. } = &plan.crash {
        // pin the crash point: try every operation index of a typical flush history
        for op in 1..=120u64 {
            for torn in [0u32, 500] {
                let mut p = plan.clone();
                p.crash = Crash::At { op, torn };
                out.push(p);
            }
        }
        return out;
    }
    if plan.phases.len() > 1 {
        for i in 0..plan.phases.len() {
            if let Crash::At { .. } = plan.crash {
                // dropping a phase shifts op indices; still worth trying the last ones
            }
            let mut p = plan.clone();
            p.phases.remove(i);
            out.push(p);
        }
    }
    for (pi, ph) in plan.phases.iter().enumerate() {
        for oi in 0..ph.len() {
            let mut p = plan.clone();
            p.phases[pi].remove(oi);
            out.push(p);
        }
    }
    if plan.knobs != KnobSpec::calm() {
        let mut p = plan.clone();
        p.knobs = KnobSpec::calm();
        out.push(p);
    }
    if let Some((cps, cc)) = &plan.chain {
        let mut p = plan.clone();
        p.chain = None;
        out.push(p);
        if cps.len() > 1 {
            for i in 0..cps.len() {
                let mut p = plan.clone();
                let mut c = cps.clone();
                c.remove(i);
                p.chain = Some((c, *cc));
                out.push(p);
            }
        }
        for (ci, ph) in cps.iter().enumerate() {
            if ph.len() > 1 {
                for oi in 0..ph.len() {
                    let mut p = plan.clone();
                    let mut c = cps.clone();
                    c[ci].remove(oi);
                    p.chain = Some((c, *cc));
                    out.push(p);
                }
            }
        }
    }
    if plan.channel_buffer_size != 1000 {
        let mut p = plan.clone();
        p.channel_buffer_size = 1000;
        out.push(p);
    }
    if let Crash::KillAfter { ops, yields } = &plan.crash {
        if *yields > 0 {
            let mut p = plan.clone();
            p.crash = Crash::KillAfter { ops: *ops, yields: 0 };
            out.push(p);
        }
    }
    out
}
