//! C19: real cluster-orchestrator instances (election / lead / follow / config / process manager)
//! and scripted peers on the simulated UDP network with loss, duplication, reordering and delay.
//! Only safety is asserted: when an instance starts `worterbuch --leader`, the distinct configured
//! peers whose vote responses *to that round's request* were delivered, plus itself, reach the
//! quorum; when it starts `--follower --leader-address A`, A is the sync address of a configured
//! peer from which a heartbeat request was delivered.

use crate::harness::{self, KnobSpec, Outcome};
use serde::{Deserialize, Serialize};
use serde_json::{Value, json};
use simcore::Rng;
use simcore::net::UdpLogEntry;
use std::collections::{BTreeMap, BTreeSet};
use std::net::{IpAddr, SocketAddr};
use std::sync::{Arc, Mutex};
use std::time::Duration;

#[derive(Clone, Debug, Serialize, Deserialize, PartialEq)]
pub enum VotePolicy {
    Never,
    Always,
    /// answers every request twice
    Twice,
    /// answers after this many ms (possibly in a later round)
    Late(u64),
    /// answers with a node id that is not part of the cluster
    AsUnknown,
    /// answers with the id of the candidate itself (a reflected / spoofed vote)
    AsCandidate,
    /// answers at once, but names another round than the one it was asked in (or none)
    WrongRound,
}

#[derive(Clone, Debug, Serialize, Deserialize, PartialEq)]
pub struct PeerScript {
    pub votes: VotePolicy,
    /// competes: at this time (ms) it asks everybody for votes with this priority
    pub competes: Vec<(u64, i64)>,
    /// announces itself as leader with heartbeats in [from, to) ms; `as_member` false: unknown id
    pub heartbeats: Option<(u64, u64, bool)>,
    /// sends vote responses nobody asked for at these times (ms)
    pub unsolicited_votes: Vec<u64>,
    pub answers_heartbeats: bool,
}

#[derive(Clone, Debug, Serialize, Deserialize, PartialEq)]
pub struct OrchPlan {
    pub knobs: KnobSpec,
    pub n_nodes: usize,
    /// indices of nodes that are real orchestrator instances
    pub real: Vec<usize>,
    pub quorum: Option<usize>,
    pub priorities: Vec<i64>,
    pub heartbeat_ms: u64,
    pub min_timeout_ms: u64,
    /// one per node (ignored for real ones)
    pub scripts: Vec<PeerScript>,
    pub duration_ms: u64,
    /// partition (node a, node b, from ms, for ms) between real instances
    pub partitions: Vec<(usize, usize, u64, u64)>,
}

fn node_id(i: usize) -> String {
    format!("node{i}")
}
fn raft_addr(i: usize) -> SocketAddr {
    SocketAddr::new(IpAddr::from([10, 0, 0, (i + 1) as u8]), 9000 + i as u16)
}
fn sync_port(i: usize) -> u16 {
    7000 + i as u16
}

pub fn gen_plan(rng: &mut Rng, thorough: bool) -> OrchPlan {
    let mut knobs = if rng.chance(1, 6) { KnobSpec::calm() } else { KnobSpec::draw(rng) };
    knobs.p_udp_drop = *rng.pick(&[0u32, 0, 50, 200, 500]);
    knobs.p_udp_dup = *rng.pick(&[0u32, 0, 100, 400]);
    knobs.udp_lat_max_us = *rng.pick(&[0u64, 1_000, 50_000, 400_000, 1_500_000]);
    knobs.max_stall_us = knobs.max_stall_us.min(50_000);
    let n_nodes = rng.range(1, 7) as usize;
    let n_real = rng.range(1, 3.min(n_nodes as u64)) as usize;
    let mut idx: Vec<usize> = (0..n_nodes).collect();
    let mut real = vec![];
    for _ in 0..n_real {
        let k = rng.below(idx.len() as u64) as usize;
        real.push(idx.remove(k));
    }
    real.sort();
    let quorum = match rng.below(5) {
        0 => Some(rng.range(1, n_nodes as u64) as usize),
        1 if n_nodes >= 2 => Some(n_nodes / 2),
        _ => None,
    };
    let quorum = quorum.map(|q| q.max(1));
    let priorities = (0..n_nodes).map(|_| *rng.pick(&[0i64, 0, 1, 5, -3, 100])).collect();
    let min_timeout_ms = *rng.pick(&[100u64, 300, 500]);
    let scripts = (0..n_nodes)
        .map(|_| PeerScript {
            votes: match rng.below(11) {
                0 => VotePolicy::Never,
                1..=3 => VotePolicy::Always,
                4..=5 => VotePolicy::Twice,
                6..=7 => VotePolicy::Late(rng.range(50, 3 * min_timeout_ms)),
                8 => VotePolicy::AsCandidate,
                9 => VotePolicy::WrongRound,
                _ => VotePolicy::AsUnknown,
            },
            competes: if rng.chance(1, 3) {
                (0..rng.range(1, 2)).map(|_| (rng.range(0, 3000), *rng.pick(&[0i64, 1, 5, -3, 1000]))).collect()
            } else {
                vec![]
            },
            heartbeats: if rng.chance(1, 4) {
                let from = rng.range(0, 3000);
                Some((from, from + rng.range(100, 2000), rng.chance(2, 3)))
            } else {
                None
            },
            unsolicited_votes: if rng.chance(1, 4) {
                (0..rng.range(1, 5)).map(|_| rng.range(0, 4000)).collect()
            } else {
                vec![]
            },
            answers_heartbeats: rng.chance(3, 4),
        })
        .collect();
    let mut partitions = vec![];
    if real.len() >= 2 && rng.chance(1, 3) {
        partitions.push((real[0], real[1], rng.range(0, 2000), rng.range(200, 3000)));
    }
    OrchPlan {
        knobs,
        n_nodes,
        real,
        quorum,
        priorities,
        heartbeat_ms: *rng.pick(&[50u64, 100]),
        min_timeout_ms,
        scripts,
        duration_ms: if thorough { rng.range(3000, 12_000) } else { rng.range(2000, 6000) },
        partitions,
    }
}

fn cluster_yaml(plan: &OrchPlan) -> String {
    let mut s = String::from("nodes:\n");
    for i in 0..plan.n_nodes {
        s += &format!(
            "  - nodeId: {}\n    address: 10.0.0.{}\n    raftPort: {}\n    syncPort: {}\n    priority: {}\n    suicideOnSplitBrain: true\n",
            node_id(i),
            i + 1,
            9000 + i,
            sync_port(i),
            plan.priorities[i]
        );
    }
    if let Some(q) = plan.quorum {
        s += &format!("quorum: {q}\n");
    }
    s
}

/// which request a scripted response answers: response datagram id → request datagram id
type ReplyOf = Arc<Mutex<BTreeMap<u64, Option<u64>>>>;

async fn scripted_peer(i: usize, plan: OrchPlan, reply_of: ReplyOf) {
    let Ok(sock) = simcore::net::UdpSocket::bind(raft_addr(i)).await else { return };
    let sock = Arc::new(sock);
    let sc = plan.scripts[i].clone();
    let me = node_id(i);
    let peers: Vec<usize> = (0..plan.n_nodes).filter(|j| *j != i).collect();
    // proactive behaviour
    for (at, prio) in sc.competes.clone() {
        let s2 = sock.clone();
        let peers = peers.clone();
        let me = me.clone();
        tokio::spawn(async move {
            tokio::time::sleep(Duration::from_millis(at)).await;
            let m = json!({"vote": {"request": {"nodeId": me, "priority": prio}}}).to_string();
            for p in peers {
                let _ = s2.send_to(m.as_bytes(), raft_addr(p)).await;
            }
            simcore::ctx::count("scripted_competing_candidate");
        });
    }
    if let Some((from, to, as_member)) = sc.heartbeats {
        let s2 = sock.clone();
        let peers = peers.clone();
        let id = if as_member { me.clone() } else { "intruder".to_owned() };
        let hb = plan.heartbeat_ms;
        tokio::spawn(async move {
            tokio::time::sleep(Duration::from_millis(from)).await;
            let mut t = from;
            while t < to {
                let m = json!({"heartbeat": {"request": {"nodeId": id}}}).to_string();
                for p in &peers {
                    let _ = s2.send_to(m.as_bytes(), raft_addr(*p)).await;
                }
                tokio::time::sleep(Duration::from_millis(hb)).await;
                t += hb;
            }
            simcore::ctx::count(if as_member { "scripted_leader_heartbeats" } else { "scripted_intruder_heartbeats" });
        });
    }
    for at in sc.unsolicited_votes.clone() {
        let s2 = sock.clone();
        let peers = peers.clone();
        let me = me.clone();
        let ro = reply_of.clone();
        tokio::spawn(async move {
            tokio::time::sleep(Duration::from_millis(at)).await;
            let m = json!({"vote": {"response": {"nodeId": me}}}).to_string();
            for p in peers {
                if s2.send_to(m.as_bytes(), raft_addr(p)).await.is_ok() {
                    let id = simcore::net::LAST_SENT.with(|l| l.get());
                    ro.lock().expect("ro").insert(id, None);
                }
            }
            simcore::ctx::count("scripted_unsolicited_vote");
        });
    }
    // reactive behaviour
    let mut buf = vec![0u8; 65507];
    loop {
        let Ok((n, _from, req_id)) = sock.recv_with_id(&mut buf).await else { break };
        let Ok(v) = serde_json::from_slice::<Value>(&buf[..n]) else { continue };
        if let Some(req) = v.get("vote").and_then(|x| x.get("request")) {
            let cand = req.get("nodeId").and_then(|x| x.as_str()).unwrap_or("").to_owned();
            let Some(ci) = (0..plan.n_nodes).find(|j| node_id(*j) == cand) else { continue };
            let target = raft_addr(ci);
            let (id_in_msg, copies, delay) = match &sc.votes {
                VotePolicy::Never => continue,
                VotePolicy::Always => (me.clone(), 1, 0),
                VotePolicy::Twice => (me.clone(), 2, 0),
                VotePolicy::Late(ms) => (me.clone(), 1, *ms),
                VotePolicy::AsUnknown => ("stranger".to_owned(), 1, 0),
                VotePolicy::AsCandidate => (cand.clone(), 1, 0),
                VotePolicy::WrongRound => (me.clone(), 1, 0),
            };
            // a well-behaved voter names the round of the request it answers
            let round = match (&sc.votes, req.get("round").cloned()) {
                (VotePolicy::WrongRound, Some(r)) => {
                    if r.as_u64().map(|x| x % 2 == 0).unwrap_or(true) {
                        Value::Null
                    } else {
                        json!(r.as_u64().unwrap_or(0).wrapping_add(1))
                    }
                }
                (_, Some(r)) => r,
                (_, None) => Value::Null,
            };
            let wrong_round = matches!(sc.votes, VotePolicy::WrongRound);
            let s2 = sock.clone();
            let ro = reply_of.clone();
            tokio::spawn(async move {
                if delay > 0 {
                    tokio::time::sleep(Duration::from_millis(delay)).await;
                    simcore::ctx::count("scripted_late_vote");
                }
                let mut body = json!({"nodeId": id_in_msg});
                if !round.is_null() {
                    body["round"] = round.clone();
                }
                let m = json!({"vote": {"response": body}}).to_string();
                for _ in 0..copies {
                    if s2.send_to(m.as_bytes(), target).await.is_ok() {
                        let id = simcore::net::LAST_SENT.with(|l| l.get());
                        // a vote that names another round does not answer this request
                        ro.lock().expect("ro").insert(id, if wrong_round { None } else { Some(req_id) });
                    }
                }
                if wrong_round {
                    simcore::ctx::count("scripted_wrong_round_vote");
                }
                if copies > 1 {
                    simcore::ctx::count("scripted_duplicate_vote");
                }
            });
        } else if let Some(hb) = v.get("heartbeat").and_then(|x| x.get("request")) {
            if sc.answers_heartbeats {
                let leader = hb.get("nodeId").and_then(|x| x.as_str()).unwrap_or("").to_owned();
                if let Some(li) = (0..plan.n_nodes).find(|j| node_id(*j) == leader) {
                    let m = json!({"heartbeat": {"response": {"nodeId": me}}}).to_string();
                    let _ = sock.send_to(m.as_bytes(), raft_addr(li)).await;
                }
            }
        }
    }
}

pub async fn run(plan: OrchPlan) -> Outcome {
    let mut out = Outcome::default();
    simcore::net::enable_udp_log();
    let reply_of: ReplyOf = Arc::new(Mutex::new(BTreeMap::new()));
    let mut real_nodes: BTreeMap<usize, u32> = BTreeMap::new();
    let mut done: Vec<Arc<Mutex<Option<Result<(), String>>>>> = vec![];
    let yaml = cluster_yaml(&plan);
    for i in 0..plan.n_nodes {
        if plan.real.contains(&i) {
            let dir = harness::run_dir().join(node_id(i));
            let _ = std::fs::create_dir_all(&dir);
            let cfg_path = dir.join("cluster.yaml");
            let _ = std::fs::write(&cfg_path, &yaml);
            let node = simcore::ctx::add_node(&node_id(i), dir.clone());
            real_nodes.insert(i, node);
            let argv: Vec<String> = vec![
                "worterbuch-cluster-orchestrator".into(),
                node_id(i),
                "--config-path".into(),
                cfg_path.to_string_lossy().into_owned(),
                "--heartbeat".into(),
                plan.heartbeat_ms.to_string(),
                "--timeout".into(),
                plan.min_timeout_ms.to_string(),
                "--stats-port".into(),
                "0".into(),
                "--data-dir".into(),
                dir.to_string_lossy().into_owned(),
                "--config-scan-interval".into(),
                "3600".into(),
            ];
            let d = Arc::new(Mutex::new(None));
            done.push(d.clone());
            let name = node_id(i);
            simcore::chaos::spawn_on(node, async move {
                let res = tosub::build_root(name)
                    .catch_no_signals()
                    .start(move |s| async move { worterbuch_cluster_orchestrator::verif_run_main(s, argv).await })
                    .await;
                *d.lock().expect("done") = Some(res.map(|_| ()).map_err(|e| format!("{e}")));
            });
        } else {
            tokio::spawn(scripted_peer(i, plan.clone(), reply_of.clone()));
        }
    }
    for (a, b, from, dur) in plan.partitions.clone() {
        if let (Some(na), Some(nb)) = (real_nodes.get(&a).cloned(), real_nodes.get(&b).cloned()) {
            tokio::spawn(async move {
                tokio::time::sleep(Duration::from_millis(from)).await;
                simcore::net::set_partition(na, nb, true);
                tokio::time::sleep(Duration::from_millis(dur)).await;
                simcore::net::set_partition(na, nb, false);
            });
        }
    }
    tokio::time::sleep(Duration::from_millis(plan.duration_ms)).await;

    // ---- the history
    let log: Vec<UdpLogEntry> = simcore::net::take_udp_log();
    let procs = simcore::process::spawned();
    let reply_of = reply_of.lock().expect("ro").clone();
    let n = plan.n_nodes;
    let quorum = plan.quorum.unwrap_or(n / 2 + 1);
    out.probe_n("datagrams_sent", log.iter().filter(|e| e.kind == "send").count() as u64);
    out.probe_n("processes_started", procs.len() as u64);
    let parse = |e: &UdpLogEntry| -> Option<Value> { serde_json::from_slice::<Value>(&e.data).ok() };
    let port_of = |i: usize| 9000 + i as u16;
    for (i, node) in &real_nodes {
        let me = node_id(*i);
        // vote requests sent by this instance, grouped into rounds (one request per peer and round)
        let peers_n = n - 1;
        let my_requests: Vec<&UdpLogEntry> = log
            .iter()
            .filter(|e| e.kind == "send" && e.from.port() == port_of(*i))
            .filter(|e| {
                parse(e)
                    .and_then(|v| v.get("vote").and_then(|x| x.get("request")).and_then(|r| r.get("nodeId")).and_then(|x| x.as_str()).map(|s| s == me))
                    .unwrap_or(false)
            })
            .collect();
        let round_of_request: BTreeMap<u64, usize> = my_requests
            .iter()
            .enumerate()
            .map(|(k, e)| (e.id, if peers_n == 0 { 0 } else { k / peers_n }))
            .collect();
        let round_start: Vec<u64> = my_requests
            .iter()
            .enumerate()
            .filter(|(k, _)| peers_n == 0 || k % peers_n == 0)
            .map(|(_, e)| e.seq)
            .collect();
        // for responses sent by *real* instances: the request they answer is the last vote request
        // of this candidate delivered to them before they sent
        let inferred_reply = |resp: &UdpLogEntry| -> Option<u64> {
            let sender_port = resp.from.port();
            log.iter()
                .filter(|e| e.kind == "deliver" && e.to.port() == sender_port && e.seq < resp.seq)
                .filter(|e| round_of_request.contains_key(&e.id))
                .map(|e| e.id)
                .next_back()
        };
        for p in procs.iter().filter(|p| p.node == *node) {
            let args = p.args.join(" ");
            if p.args.iter().any(|a| a == "--leader") {
                out.probe("leader_starts_observed");
                // current round: the last one started before the process was spawned
                let r = round_start.iter().filter(|s| **s < p.seq).count();
                let r = if r == 0 { None } else { Some(r - 1) };
                let start_seq = r.map(|r| round_start[r]).unwrap_or(0);
                let mut voters_round: BTreeSet<String> = BTreeSet::new();
                let mut voters_any: BTreeSet<String> = BTreeSet::new();
                let mut stale = 0;
                let mut dup = 0;
                for e in log.iter().filter(|e| e.kind == "deliver" && e.to.port() == port_of(*i) && e.seq < p.seq) {
                    let Some(v) = parse(e) else { continue };
                    let Some(id) = v.get("vote").and_then(|x| x.get("response")).and_then(|r| r.get("nodeId")).and_then(|x| x.as_str()) else { continue };
                    let configured = (0..n).any(|j| j != *i && node_id(j) == id);
                    if !configured {
                        continue;
                    }
                    // which request does it answer?
                    let send = log.iter().find(|s| s.kind == "send" && s.id == e.id);
                    let answered: Option<u64> = match reply_of.get(&e.id) {
                        Some(x) => *x,
                        None => send.and_then(inferred_reply),
                    };
                    let round = answered.and_then(|q| round_of_request.get(&q).cloned());
                    if e.seq > start_seq {
                        if !voters_any.insert(id.to_owned()) {
                            dup += 1;
                        }
                        if round.is_some() && round == r {
                            voters_round.insert(id.to_owned());
                        } else {
                            stale += 1;
                        }
                    }
                }
                if stale > 0 {
                    out.probe("stale_or_unsolicited_vote_delivered_while_collecting");
                }
                if dup > 0 {
                    out.probe("duplicate_vote_delivered_while_collecting");
                }
                let have = voters_round.len() + 1;
                if have < quorum {
                    let sig = if voters_any.len() + 1 >= quorum {
                        "a vote that does not answer the current round's request (late answer to an earlier round, or unsolicited) is counted towards the quorum"
                    } else {
                        "a node took the leader role without a quorum of votes from distinct configured peers"
                    };
                    out.violate(
                        "C19",
                        "leader-without-quorum",
                        sig,
                        format!(
                            "{me} started `{} {args}` in round {r:?} with votes of this round from {voters_round:?} (+itself) = {have} < quorum {quorum} of {n}; responses delivered since the round began: {voters_any:?}",
                            p.program
                        ),
                    );
                }
            } else if p.args.iter().any(|a| a == "--follower") {
                out.probe("follower_starts_observed");
                let addr = p
                    .args
                    .iter()
                    .position(|a| a == "--leader-address")
                    .and_then(|k| p.args.get(k + 1))
                    .cloned()
                    .unwrap_or_default();
                let leader = (0..n).find(|j| *j != *i && SocketAddr::new(IpAddr::from([10, 0, 0, (*j + 1) as u8]), sync_port(*j)).to_string() == addr);
                match leader {
                    None => out.violate(
                        "C19",
                        "follow-unknown",
                        "a node started in follower mode towards an address that is not the sync address of a configured peer",
                        format!("{me}: {args}"),
                    ),
                    Some(j) => {
                        let announced = log.iter().any(|e| {
                            e.kind == "deliver"
                                && e.to.port() == port_of(*i)
                                && e.seq < p.seq
                                && parse(e)
                                    .and_then(|v| v.get("heartbeat").and_then(|x| x.get("request")).and_then(|r| r.get("nodeId")).and_then(|x| x.as_str()).map(|s| s == node_id(j)))
                                    .unwrap_or(false)
                        });
                        if !announced {
                            out.violate(
                                "C19",
                                "follow-unannounced",
                                "a node started in follower mode towards a peer that never announced itself as leader",
                                format!("{me}: {args}"),
                            );
                        }
                    }
                }
            }
        }
    }
    for (k, d) in done.iter().enumerate() {
        if let Some(Err(e)) = d.lock().expect("done").as_ref() {
            out.probe("orchestrator_terminated_with_error");
            let _ = (k, e);
        }
    }
    out.nontrivial = !procs.is_empty() && plan.n_nodes >= 2;
    if !out.violations.is_empty() {
        let lines: Vec<String> = log
            .iter()
            .take(300)
            .map(|e| format!("{} {} {}->{} #{} {}", e.seq, e.kind, e.from.port(), e.to.port(), e.id, String::from_utf8_lossy(&e.data)))
            .collect();
        let ps: Vec<String> = procs.iter().map(|p| format!("{} node{} {} {:?}", p.seq, p.node, p.program, p.args)).collect();
        out.sample = Some(json!({"udp": lines, "processes": ps}));
    }
    out
}

pub fn shrink(plan: &OrchPlan) -> Vec<OrchPlan> {
    let mut out = vec![];
    for i in 0..plan.n_nodes {
        if plan.real.contains(&i) {
            continue;
        }
        let s = &plan.scripts[i];
        if !s.competes.is_empty() {
            let mut p = plan.clone();
            p.scripts[i].competes.clear();
            out.push(p);
        }
        if s.heartbeats.is_some() {
            let mut p = plan.clone();
            p.scripts[i].heartbeats = None;
            out.push(p);
        }
        if !s.unsolicited_votes.is_empty() {
            let mut p = plan.clone();
            p.scripts[i].unsolicited_votes.clear();
            out.push(p);
        }
        if s.votes != VotePolicy::Never {
            let mut p = plan.clone();
            p.scripts[i].votes = VotePolicy::Never;
            out.push(p);
        }
        if s.votes != VotePolicy::Always {
            let mut p = plan.clone();
            p.scripts[i].votes = VotePolicy::Always;
            out.push(p);
        }
    }
    if plan.real.len() > 1 {
        for k in 0..plan.real.len() {
            let mut p = plan.clone();
            p.real.remove(k);
            out.push(p);
        }
    }
    if !plan.partitions.is_empty() {
        let mut p = plan.clone();
        p.partitions.clear();
        out.push(p);
    }
    if plan.duration_ms > 1500 {
        let mut p = plan.clone();
        p.duration_ms = plan.duration_ms / 2;
        out.push(p);
    }
    if plan.knobs != KnobSpec::calm() {
        let mut p = plan.clone();
        p.knobs = KnobSpec::calm();
        out.push(p);
        let mut p = plan.clone();
        p.knobs.p_udp_drop = 0;
        p.knobs.p_udp_dup = 0;
        out.push(p);
        let mut p = plan.clone();
        p.knobs.p_defer = 0;
        p.knobs.p_stall = 0;
        out.push(p);
    }
    out
}
