//! Imports issued through the server's API handle, and end-of-session bookkeeping for C07.

use crate::check_wire::{API_CLIENT, Checker, OpRec, Parsed, Replay};
use crate::scen_wire::WirePlan;
use serde_json::Value;

/// flatten a PersistedStore document into (key, value, cas version)
pub fn flatten(doc: &str) -> Vec<(String, Value, Option<u64>)> {
    fn walk(node: &Value, path: &mut Vec<String>, out: &mut Vec<(String, Value, Option<u64>)>) {
        if let Some(v) = node.get("v") {
            let key = path.join("/");
            if let Some(c) = v.get("Cas").and_then(|c| c.as_array()) {
                if c.len() == 2 && v.as_object().map(|o| o.len() == 1).unwrap_or(false) {
                    if let Some(ver) = c[1].as_u64() {
                        out.push((key, c[0].clone(), Some(ver)));
                    } else {
                        out.push((key, v.clone(), None));
                    }
                } else {
                    out.push((key, v.clone(), None));
                }
            } else {
                out.push((key, v.clone(), None));
            }
        }
        if let Some(t) = node.get("t").and_then(|t| t.as_object()) {
            for (seg, child) in t {
                path.push(seg.clone());
                walk(child, path, out);
                path.pop();
            }
        }
    }
    let mut out = vec![];
    if let Ok(v) = serde_json::from_str::<Value>(doc) {
        if let Some(data) = v.get("data") {
            walk(data, &mut vec![], &mut out);
        }
    }
    out
}

pub fn add_imports(
    p: &mut Parsed,
    done: &[(u64, u64, String, Result<Vec<(String, (worterbuch_common::ValueEntry, bool))>, String>)],
) {
    for (n, (s0, s1, doc, res)) in done.iter().enumerate() {
        let id = p.ops.len();
        p.ops.push(OpRec {
            id,
            client: API_CLIENT - n,
            tid: u64::MAX - 1,
            pos: n + 1,
            inv: *s0,
            raw: format!("import {doc}"),
            req: None,
            ans: if res.is_ok() {
                Some((
                    *s1,
                    worterbuch_common::ServerMessage::Ack(worterbuch_common::Ack {
                        transaction_id: u64::MAX - 1,
                    }),
                ))
            } else {
                None
            },
            extra_terminals: 0,
            spub_key: None,
            placed: false,
            import: Some(flatten(doc)),
        });
    }
}

/// every session that ended must have been cleaned up by the time the system is quiescent
pub fn check_session_ends(ck: &mut Checker<'_>, rp: &Replay, plan: &WirePlan) {
    let _ = plan;
    let clients: Vec<(usize, crate::check_wire::ClientInfo)> =
        ck.p.clients.iter().map(|(i, c)| (*i, c.clone())).collect();
    for (i, ci) in clients {
        if ci.client_id.is_none() {
            continue;
        }
        let ended_outside = ci.closed_by_client.is_some() || ci.closed_seen.is_some();
        if ended_outside && !rp.ended.contains_key(&i) {
            ck.out.violate(
                "C07",
                "session-end-not-processed",
                "a session ended but the server never removed its $SYS entries",
                format!("client {i} ({})", ci.client_id.unwrap_or_default()),
            );
        }
    }
}
