fn main() {
    println!("wbsim");
}
