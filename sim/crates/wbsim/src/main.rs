//! wbsim — deterministic simulation with fault injection for babymotte/worterbuch.
//! See /verif/DESIGN.md. Usage:
//!   wbsim check <PROPERTY> <quick|thorough>      (reads VERIF_SEED)
//!   wbsim replay <file>
//!   wbsim selftest determinism [--runs N]
//!   wbsim worker ...                              (internal)

mod batch;
mod check_extra;
mod check_import;
mod check_locks;
mod check_wire;
mod cluster;
mod wgen;
mod harness;
mod model;
mod plans;
mod scen_client;
mod scen_disk;
mod scen_frame;
mod scen_orch;
mod scen_wire;
mod wire;

use std::process::ExitCode;

/// std's `RandomState` draws its per-process keys from the OS; binding the C symbol here makes
/// those keys constant, so `std::collections::HashMap` iteration (unix.rs client table, the
/// client library's buffers) is the same in every process.
#[unsafe(no_mangle)]
pub unsafe extern "C" fn getrandom(buf: *mut u8, len: usize, _flags: u32) -> isize {
    let s = unsafe { std::slice::from_raw_parts_mut(buf, len) };
    for (i, b) in s.iter_mut().enumerate() {
        *b = (i as u8).wrapping_mul(31).wrapping_add(7);
    }
    len as isize
}

/// Wall-clock seam: `SystemTime::now()` (the `connectedSince` entries, JWT expiry checks) reads
/// CLOCK_REALTIME through this symbol. Inside a simulation it is a fixed epoch plus simulated
/// time; every other clock, and every call outside a simulation, goes to the kernel.
///
/// The monotonic clocks are simulated as well: code under test that reads `std::time::Instant`
/// (the orchestrator's leader keeps the time of the last heartbeat answer of every peer that way)
/// would otherwise compare real elapsed time with its time-outs, and a run would depend on how
/// busy the machine is. tokio's paused clock never reads the OS clock, so simulated time can be
/// derived from it here; the guard keeps the one path that does (no runtime entered yet) from
/// recursing.
#[unsafe(no_mangle)]
pub unsafe extern "C" fn clock_gettime(clk: libc::clockid_t, ts: *mut libc::timespec) -> libc::c_int {
    thread_local! {
        static IN_CLOCK: std::cell::Cell<bool> = const { std::cell::Cell::new(false) };
    }
    let simulated = matches!(
        clk,
        libc::CLOCK_REALTIME | libc::CLOCK_MONOTONIC | libc::CLOCK_MONOTONIC_RAW | libc::CLOCK_MONOTONIC_COARSE | libc::CLOCK_BOOTTIME
    );
    if simulated && !IN_CLOCK.with(|c| c.get()) && simcore::ctx::installed() {
        IN_CLOCK.with(|c| c.set(true));
        let us = simcore::ctx::now_us();
        IN_CLOCK.with(|c| c.set(false));
        // wall clock: 2026-01-01T00:00:00Z; monotonic clocks: an arbitrary positive origin
        let origin: i64 = if clk == libc::CLOCK_REALTIME { 1_767_225_600 } else { 1_000_000 };
        unsafe {
            (*ts).tv_sec = origin + (us / 1_000_000) as i64;
            (*ts).tv_nsec = ((us % 1_000_000) * 1000) as i64;
        }
        return 0;
    }
    unsafe { libc::syscall(libc::SYS_clock_gettime, clk, ts) as libc::c_int }
}

/// getrandom 0.3/0.4 custom backend (uuid v4, rand::random): bytes from the run seed
#[unsafe(no_mangle)]
unsafe extern "Rust" fn __getrandom_v03_custom(
    dest: *mut u8,
    len: usize,
) -> Result<(), getrandom::Error> {
    let s = unsafe { std::slice::from_raw_parts_mut(dest, len) };
    simcore::rand_hooks::fill(s);
    Ok(())
}

/// process-global state of the code under test that must not leak from one run into the next
pub fn reset_process_globals() {
    // PERSISTENCE_LOCKED only guards the window before restore() returns; no oracle looks into it
}

fn install_panic_hook() {
    std::panic::set_hook(Box::new(|info| {
        let msg = format!("{info}");
        let recorded = simcore::ctx::try_with(|s| {
            let n = s.cur_node;
            s.panics.push((n, msg.clone()));
            s.count("panic");
        });
        if recorded.is_none() || std::env::var("WBSIM_SHOW_PANICS").is_ok() {
            eprintln!("wbsim: panic: {msg}");
        }
    }));
}

fn main() -> ExitCode {
    install_panic_hook();
    for (k, _) in std::env::vars() {
        if k.starts_with("WORTERBUCH_") {
            // SAFETY: single-threaded at this point
            unsafe { std::env::remove_var(&k) };
        }
    }
    let args: Vec<String> = std::env::args().collect();
    let code = match args.get(1).map(|s| s.as_str()) {
        Some("check") => batch::cmd_check(&args[2..]),
        Some("worker") => batch::cmd_worker(&args[2..]),
        Some("replay") => batch::cmd_replay(&args[2..]),
        Some("selftest") => batch::cmd_selftest(&args[2..]),
        Some("one") => batch::cmd_one(&args[2..]),
        _ => {
            eprintln!("usage: wbsim check <PROPERTY> <quick|thorough> | replay <file> | selftest determinism | one <PROPERTY> <seed>");
            2
        }
    };
    harness::cleanup_process_dir();
    ExitCode::from(code)
}
