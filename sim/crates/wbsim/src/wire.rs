//! Simulated wire-level clients (JSON lines over the simulated Unix socket) and the run history.

use serde::{Deserialize, Serialize};
use serde_json::{Value, json};
use simcore::ctx;
use simcore::net::Stream;
use std::collections::BTreeMap;
use std::path::PathBuf;
use std::sync::{Arc, Mutex};
use std::time::Duration;
use tokio::io::{AsyncBufReadExt, AsyncWriteExt, BufReader};
use tokio::sync::Notify;
use worterbuch_common::{PStateEvent, ServerMessage};

#[derive(Clone, Debug)]
pub enum Ev {
    Send {
        seq: u64,
        client: usize,
        tid: u64,
        line: String,
        op_index: usize,
    },
    Recv {
        seq: u64,
        client: usize,
        msg: ServerMessage,
        /// simulated time of receipt (µs since start)
        at_us: u64,
    },
    RecvGarbage {
        seq: u64,
        client: usize,
        line: String,
    },
    /// the client saw its connection end (EOF or error), or ended it itself
    Closed {
        seq: u64,
        client: usize,
        how: String,
    },
    Welcome {
        seq: u64,
        client: usize,
        client_id: String,
    },
    Witness {
        seq: u64,
        ev: PStateEvent,
    },
    Mark {
        seq: u64,
        label: String,
    },
}

impl Ev {
    pub fn seq(&self) -> u64 {
        match self {
            Ev::Send { seq, .. }
            | Ev::Recv { seq, .. }
            | Ev::RecvGarbage { seq, .. }
            | Ev::Closed { seq, .. }
            | Ev::Welcome { seq, .. }
            | Ev::Witness { seq, .. }
            | Ev::Mark { seq, .. } => *seq,
        }
    }
}

#[derive(Clone, Default)]
pub struct History(pub Arc<Mutex<Vec<Ev>>>);

impl History {
    pub fn push(&self, f: impl FnOnce(u64) -> Ev) {
        let seq = ctx::seq();
        self.0.lock().expect("history").push(f(seq));
    }
    pub fn mark(&self, label: &str) {
        self.push(|seq| Ev::Mark {
            seq,
            label: label.to_owned(),
        });
    }
    pub fn snapshot(&self) -> Vec<Ev> {
        self.0.lock().expect("history").clone()
    }
}

#[derive(Clone, Copy, Debug, Serialize, Deserialize, PartialEq)]
pub enum EndKind {
    /// orderly close after the last answer
    Close,
    /// abrupt reset (client crash)
    Reset,
    /// keep the session open until the end of the run
    Stay,
}

#[derive(Clone, Debug, Serialize, Deserialize, PartialEq)]
pub enum Op {
    /// a request as JSON `{"<kind>": {...}}` without transactionId (filled in when sent)
    Req(Value),
    /// cget then cset(version of the answer) appending `token` to the list read
    CasCycle { key: String, token: String },
    /// cget, then cset of the *same* value with the version read (value-preserving CAS write);
    /// on an absent key: cset(token, 0)
    CasRewrite { key: String, token: String },
    /// unsubscribe the n-th (p)subscribe / subscribeLs request of this client
    UnsubNth { n: usize, ls: bool },
    /// publish on the n-th spubInit stream of this client
    SPubNth { n: usize, value: Value },
    /// raw line(s), sent as is (no transaction id bookkeeping)
    Raw(String),
    /// raw bytes (hex) sent as is
    RawBytes(String),
    Sleep(u64),
}

#[derive(Clone, Debug, Serialize, Deserialize, PartialEq)]
pub struct ClientPlan {
    /// protocol major version to switch to (None: stay on the server default)
    pub proto: Option<u32>,
    pub pipeline: bool,
    pub start_delay_us: u64,
    pub think_us: u64,
    pub ops: Vec<Op>,
    pub end: EndKind,
    /// reset the connection right after sending op #n (client crash mid-request)
    #[serde(default)]
    pub crash_after_op: Option<usize>,
    #[serde(default)]
    pub auth_token: Option<String>,
    /// connect to the server's TCP endpoint (server/tcp.rs) instead of the Unix socket
    #[serde(default)]
    pub tcp: bool,
}

pub struct ClientShared {
    pub answers: Mutex<BTreeMap<u64, Vec<ServerMessage>>>,
    pub notify: Notify,
    pub closed: Mutex<bool>,
    pub client_id: Mutex<Option<String>>,
    pub last_cget: Mutex<BTreeMap<String, (Value, u64)>>,
}

fn with_tid(req: &Value, tid: u64) -> Value {
    let mut v = req.clone();
    if let Some(obj) = v.as_object_mut() {
        for (_k, inner) in obj.iter_mut() {
            if let Some(io) = inner.as_object_mut() {
                if !io.contains_key("transactionId") {
                    io.insert("transactionId".to_owned(), json!(tid));
                }
            }
        }
    }
    v
}

fn subst_self(v: &mut Value, client_id: &str) {
    match v {
        Value::String(s) => {
            if s.contains("<SELF") {
                // alternative spellings of the own id that a UUID parser accepts
                *s = s
                    .replace("<SELF_UPPER>", &client_id.to_uppercase())
                    .replace("<SELF_SIMPLE>", &client_id.replace('-', ""))
                    .replace("<SELF_BRACED>", &format!("{{{client_id}}}"))
                    .replace("<SELF_URN>", &format!("urn:uuid:{client_id}"))
                    .replace("<SELF>", client_id);
            }
        }
        Value::Array(a) => a.iter_mut().for_each(|x| subst_self(x, client_id)),
        Value::Object(o) => o.values_mut().for_each(|x| subst_self(x, client_id)),
        _ => {}
    }
}

pub struct Client {
    pub idx: usize,
    pub plan: ClientPlan,
    pub hist: History,
    pub path: PathBuf,
    /// the server's simulated TCP endpoint, if it has one
    pub tcp_addr: Option<std::net::SocketAddr>,
    pub answer_wait_us: u64,
}

impl Client {
    /// returns the write half of a session that stays open (dropping it would close the session)
    pub async fn run(self) -> Option<simcore::net::WriteHalf> {
        let Client {
            idx,
            plan,
            hist,
            path,
            tcp_addr,
            answer_wait_us,
        } = self;
        if plan.start_delay_us > 0 {
            tokio::time::sleep(Duration::from_micros(plan.start_delay_us)).await;
        }
        // like a real client, retry while the endpoint is not up yet
        let mut attempt = 0;
        let stream: Stream = loop {
            let conn = match (plan.tcp, tcp_addr) {
                (true, Some(a)) => simcore::net::connect_tcp(a).await,
                _ => simcore::net::connect_unix(&path).await,
            };
            match conn {
                Ok(s) => break s,
                Err(e) => {
                    attempt += 1;
                    if attempt > 200 {
                        hist.push(|seq| Ev::Closed {
                            seq,
                            client: idx,
                            how: format!("connect failed: {e}"),
                        });
                        return None;
                    }
                    tokio::time::sleep(Duration::from_millis(10)).await;
                }
            }
        };
        let (r, mut w) = stream.into_halves();
        let shared = Arc::new(ClientShared {
            answers: Mutex::new(BTreeMap::new()),
            notify: Notify::new(),
            closed: Mutex::new(false),
            client_id: Mutex::new(None),
            last_cget: Mutex::new(BTreeMap::new()),
        });
        // reader task
        let rh = hist.clone();
        let rs = shared.clone();
        let reader = simcore::chaos::spawn_on(simcore::HARNESS, async move {
            let mut lines = BufReader::new(r).lines();
            loop {
                match lines.next_line().await {
                    Ok(Some(line)) => match serde_json::from_str::<ServerMessage>(&line) {
                        Ok(msg) => {
                            if let ServerMessage::Welcome(wm) = &msg {
                                *rs.client_id.lock().expect("cid") = Some(wm.client_id.clone());
                                let cid = wm.client_id.clone();
                                rh.push(|seq| Ev::Welcome {
                                    seq,
                                    client: idx,
                                    client_id: cid,
                                });
                            }
                            let tid = msg.transaction_id();
                            let at_us = ctx::now_us();
                            rh.push(|seq| Ev::Recv {
                                seq,
                                client: idx,
                                msg: msg.clone(),
                                at_us,
                            });
                            if let Some(tid) = tid {
                                rs.answers
                                    .lock()
                                    .expect("answers")
                                    .entry(tid)
                                    .or_default()
                                    .push(msg);
                            }
                            rs.notify.notify_waiters();
                        }
                        Err(_) => {
                            rh.push(|seq| Ev::RecvGarbage {
                                seq,
                                client: idx,
                                line,
                            });
                        }
                    },
                    Ok(None) => {
                        rh.push(|seq| Ev::Closed {
                            seq,
                            client: idx,
                            how: "eof".into(),
                        });
                        break;
                    }
                    Err(e) => {
                        rh.push(|seq| Ev::Closed {
                            seq,
                            client: idx,
                            how: format!("error: {}", e.kind()),
                        });
                        break;
                    }
                }
            }
            *rs.closed.lock().expect("closed") = true;
            rs.notify.notify_waiters();
        });

        // wait for the welcome message
        let cid = wait_until(&shared, answer_wait_us, |s| {
            s.client_id.lock().expect("cid").clone()
        })
        .await;
        let Some(cid) = cid else {
            w.reset();
            reader.abort();
            return None;
        };

        let mut next_tid: u64 = 1;
        let mut sub_tids: Vec<u64> = vec![];
        let mut ls_sub_tids: Vec<u64> = vec![];
        let mut spub_tids: Vec<u64> = vec![];

        // optional protocol switch / authorization (both carry transaction id 0)
        if let Some(tok) = &plan.auth_token {
            let line = json!({"authorizationRequest": {"authToken": tok}}).to_string();
            if send_line(&mut w, &hist, idx, 0, &line, usize::MAX).await.is_err() {
                return None;
            }
            let n0 = 0;
            wait_answer(&shared, 0, n0, answer_wait_us).await;
        }
        if let Some(v) = plan.proto {
            let n0 = count_answers(&shared, 0);
            let line = json!({"protocolSwitchRequest": {"version": v}}).to_string();
            if send_line(&mut w, &hist, idx, 0, &line, usize::MAX).await.is_err() {
                return None;
            }
            wait_answer(&shared, 0, n0, answer_wait_us).await;
        }

        let mut crashed = false;
        'ops: for (i, op) in plan.ops.iter().enumerate() {
            if *shared.closed.lock().expect("closed") {
                break;
            }
            if plan.think_us > 0 {
                let t = ctx::with(|s| s.tape.range(0, plan.think_us));
                if t > 0 {
                    tokio::time::sleep(Duration::from_micros(t)).await;
                }
            }
            let mut to_send: Vec<(u64, String)> = vec![];
            match op {
                Op::Sleep(us) => {
                    tokio::time::sleep(Duration::from_micros(*us)).await;
                }
                Op::Raw(line) => {
                    let l = line.replace("<SELF>", &cid);
                    if w.write_all(l.as_bytes()).await.is_err()
                        || w.write_all(b"\n").await.is_err()
                    {
                        break 'ops;
                    }
                    hist.push(|seq| Ev::Send {
                        seq,
                        client: idx,
                        tid: u64::MAX,
                        line: l,
                        op_index: i,
                    });
                }
                Op::RawBytes(hexs) => {
                    let bytes = hex::decode(hexs).unwrap_or_default();
                    if w.write_all(&bytes).await.is_err() {
                        break 'ops;
                    }
                    hist.push(|seq| Ev::Send {
                        seq,
                        client: idx,
                        tid: u64::MAX,
                        line: format!("<bytes {hexs}>"),
                        op_index: i,
                    });
                }
                Op::Req(req) => {
                    let tid = next_tid;
                    next_tid += 1;
                    let mut v = with_tid(req, tid);
                    subst_self(&mut v, &cid);
                    if let Some(o) = v.as_object() {
                        if o.contains_key("subscribe") || o.contains_key("pSubscribe") {
                            sub_tids.push(tid);
                        }
                        if o.contains_key("subscribeLs") {
                            ls_sub_tids.push(tid);
                        }
                        if o.contains_key("sPubInit") {
                            spub_tids.push(tid);
                        }
                    }
                    to_send.push((tid, v.to_string()));
                }
                Op::UnsubNth { n, ls } => {
                    let tid = next_tid;
                    next_tid += 1;
                    let list = if *ls { &ls_sub_tids } else { &sub_tids };
                    // the unsubscribe message names the subscription by *its* transaction id
                    let target = list.get(*n).cloned().unwrap_or(9_000_000 + *n as u64);
                    let _ = tid;
                    let kind = if *ls { "unsubscribeLs" } else { "unsubscribe" };
                    to_send.push((target, json!({kind: {"transactionId": target}}).to_string()));
                }
                Op::SPubNth { n, value } => {
                    let target = spub_tids.get(*n).cloned().unwrap_or(8_000_000 + *n as u64);
                    to_send.push((
                        target,
                        json!({"sPub": {"transactionId": target, "value": value}}).to_string(),
                    ));
                }
                Op::CasRewrite { key, token } => {
                    let tid = next_tid;
                    next_tid += 1;
                    let n0 = count_answers(&shared, tid);
                    let line = json!({"cGet": {"transactionId": tid, "key": key}}).to_string();
                    if send_line(&mut w, &hist, idx, tid, &line, i).await.is_err() {
                        break 'ops;
                    }
                    let ans = wait_answer(&shared, tid, n0, answer_wait_us).await;
                    let (value, version) = match ans {
                        Some(ServerMessage::CState(c)) => (c.event.value.clone(), c.event.version),
                        Some(ServerMessage::Err(_)) => (json!(token), 0),
                        _ => continue 'ops,
                    };
                    let tid2 = next_tid;
                    next_tid += 1;
                    to_send.push((
                        tid2,
                        json!({"cSet": {"transactionId": tid2, "key": key, "value": value, "version": version}})
                            .to_string(),
                    ));
                }
                Op::CasCycle { key, token } => {
                    let tid = next_tid;
                    next_tid += 1;
                    let n0 = count_answers(&shared, tid);
                    let line = json!({"cGet": {"transactionId": tid, "key": key}}).to_string();
                    if send_line(&mut w, &hist, idx, tid, &line, i).await.is_err() {
                        break 'ops;
                    }
                    let ans = wait_answer(&shared, tid, n0, answer_wait_us).await;
                    let (mut list, version) = match ans {
                        Some(ServerMessage::CState(c)) => (
                            c.event.value.as_array().cloned().unwrap_or_default(),
                            c.event.version,
                        ),
                        Some(ServerMessage::Err(_)) => (vec![], 0),
                        _ => continue 'ops,
                    };
                    list.push(json!(token));
                    let tid2 = next_tid;
                    next_tid += 1;
                    to_send.push((
                        tid2,
                        json!({"cSet": {"transactionId": tid2, "key": key, "value": list, "version": version}})
                            .to_string(),
                    ));
                }
            }
            for (tid, line) in to_send {
                let n0 = count_answers(&shared, tid);
                if send_line(&mut w, &hist, idx, tid, &line, i).await.is_err() {
                    break 'ops;
                }
                if plan.crash_after_op == Some(i) {
                    hist.push(|seq| Ev::Closed {
                        seq,
                        client: idx,
                        how: "client reset (crash)".into(),
                    });
                    w.reset();
                    crashed = true;
                    break 'ops;
                }
                if !plan.pipeline {
                    wait_answer(&shared, tid, n0, answer_wait_us).await;
                }
            }
        }
        if crashed {
            return None;
        }
        match plan.end {
            EndKind::Close => {
                // give outstanding answers a chance, then close our write side
                tokio::time::sleep(Duration::from_micros(answer_wait_us.min(50_000))).await;
                hist.push(|seq| Ev::Closed {
                    seq,
                    client: idx,
                    how: "client close".into(),
                });
                let _ = w.shutdown().await;
                drop(w);
                None
            }
            EndKind::Reset => {
                hist.push(|seq| Ev::Closed {
                    seq,
                    client: idx,
                    how: "client reset".into(),
                });
                w.reset();
                None
            }
            EndKind::Stay => Some(w),
        }
    }
}

fn count_answers(shared: &ClientShared, tid: u64) -> usize {
    shared
        .answers
        .lock()
        .expect("answers")
        .get(&tid)
        .map(|v| v.len())
        .unwrap_or(0)
}

async fn wait_until<T>(
    shared: &Arc<ClientShared>,
    max_us: u64,
    f: impl Fn(&ClientShared) -> Option<T>,
) -> Option<T> {
    let deadline = tokio::time::Instant::now() + Duration::from_micros(max_us);
    loop {
        let notified = shared.notify.notified();
        if let Some(v) = f(shared) {
            return Some(v);
        }
        if *shared.closed.lock().expect("closed") {
            return f(shared);
        }
        if tokio::time::timeout_at(deadline, notified).await.is_err() {
            return f(shared);
        }
    }
}

async fn wait_answer(
    shared: &Arc<ClientShared>,
    tid: u64,
    n0: usize,
    max_us: u64,
) -> Option<ServerMessage> {
    wait_until(shared, max_us, |s| {
        let a = s.answers.lock().expect("answers");
        a.get(&tid).and_then(|v| v.get(n0).cloned())
    })
    .await
}

async fn send_line(
    w: &mut simcore::net::WriteHalf,
    hist: &History,
    idx: usize,
    tid: u64,
    line: &str,
    op_index: usize,
) -> std::io::Result<()> {
    // the send event is stamped *before* the bytes leave: the request cannot take effect earlier
    hist.push(|seq| Ev::Send {
        seq,
        client: idx,
        tid,
        line: line.to_owned(),
        op_index,
    });
    let mut buf = Vec::with_capacity(line.len() + 1);
    buf.extend_from_slice(line.as_bytes());
    buf.push(b'\n');
    w.write_all(&buf).await?;
    w.flush().await
}
