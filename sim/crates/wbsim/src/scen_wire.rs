//! Wire-level scenario: N simulated clients speak protocol v0/v1 to one real server over the
//! simulated Unix socket; an internal witness subscription fixes the order of accepted changes.
//! Serves C01 C02 C03 C05 C06 C07 C08 C13 C17 (different operation mixes, one checker).

use crate::check_wire::{self, Checker, ReadBack};
use crate::wgen::{self as gen_, Mix};
use crate::harness::{self, KnobSpec, Outcome};
use crate::model;
use crate::wire::{Client, ClientPlan, EndKind, Ev, History, Op};
use serde::{Deserialize, Serialize};
use serde_json::{Value, json};
use simcore::Rng;
use std::collections::{BTreeMap, BTreeSet};
use std::time::Duration;
use worterbuch_common::{ClientId, INTERNAL_CLIENT_ID, WbApi};

#[derive(Clone, Debug, Serialize, Deserialize, PartialEq)]
pub struct WirePlan {
    pub focus: String,
    pub knobs: KnobSpec,
    pub channel_buffer_size: usize,
    pub extended_monitoring: bool,
    pub send_timeout_s: Option<u64>,
    pub clients: Vec<ClientPlan>,
    /// (simulated µs after start, JSON document) imported through the server's API handle
    pub imports: Vec<(u64, String)>,
    pub sentinels: bool,
    pub depth: u64,
    /// leader/follower extension (C11, C12)
    #[serde(default)]
    pub cluster: Option<crate::cluster::ClusterSpec>,
    /// authorization required (C15): grants per client
    #[serde(default)]
    pub auth: Option<crate::check_extra::AuthSpec>,
    /// the server also opens its TCP endpoint (server/tcp.rs); clients with `tcp` connect there
    #[serde(default)]
    pub tcp_endpoint: bool,
}

pub fn mix_for(focus: &str) -> Mix {
    let mut m = Mix::default();
    match focus {
        "C01" => {
            m.get = 10;
            m.cget = 4;
            m.pget = 10;
            m.set = 20;
            m.cset = 10;
            m.delete = 8;
            m.pdelete = 8;
            m.ls = 8;
            m.pls = 5;
            m.publish = 1;
        }
        "C02" => {
            m.cas_rewrite = 8;
            m.cas_cycle = 30;
            m.cset = 10;
            m.cget = 5;
            m.set = 4;
            m.delete = 3;
            m.pdelete = 1;
            m.subscribe = 2;
            m.get = 2;
        }
        "C03" => {
            m.cas_rewrite = 4;
            m.set = 20;
            m.cset = 5;
            m.delete = 8;
            m.pdelete = 5;
            m.publish = 8;
            m.spub = 5;
            m.subscribe = 8;
            m.psubscribe = 10;
            m.unsubscribe = 5;
            m.pget = 3;
            m.get = 2;
        }
        "C05" => {
            m.set = 20;
            m.cset = 10;
            m.delete = 10;
            m.pdelete = 8;
            m.ls = 12;
            m.pls = 8;
            m.subscribe_ls = 10;
            m.unsubscribe_ls = 6;
        }
        "C06" => {
            m.lock = 15;
            m.acquire = 20;
            m.release = 20;
            m.set = 3;
            m.get = 2;
            m.sleep = 2;
        }
        "C07" => {
            m.set = 15;
            m.cset = 5;
            m.grave_goods = 10;
            m.last_will = 10;
            m.subscribe = 3;
            m.psubscribe = 3;
            m.lock = 3;
            m.acquire = 2;
            m.spub = 3;
            m.delete = 3;
            m.get = 3;
        }
        "C11" | "C12" => {
            // same-value conditional writes: no visible change of the value, but of the version
            m.cas_rewrite = 4;
            m.cas_cycle = 3;
            m.set = 20;
            m.cset = 8;
            m.delete = 6;
            m.pdelete = 4;
            m.grave_goods = 5;
            m.last_will = 5;
            m.publish = 1;
            m.get = 2;
        }
        "C08" => {
            // (sPub on streams whose sPubInit was refused included: SPubNth counts every init)
            m.spub = 8;
            m.sys_attack = 40;
            m.set = 5;
            m.get = 3;
            m.pget = 3;
            m.pdelete = 3;
            m.grave_goods = 2;
            m.last_will = 2;
        }
        "C15" => {
            // a session's own registrations are writes like any other: the token must grant them
            m.grave_goods = 3;
            m.last_will = 3;
            m.get = 8;
            m.cget = 3;
            m.pget = 8;
            m.set = 10;
            m.cset = 4;
            m.delete = 5;
            m.pdelete = 6;
            m.ls = 5;
            m.pls = 4;
            m.publish = 3;
            m.spub = 3;
            m.subscribe = 3;
            m.psubscribe = 4;
            m.subscribe_ls = 2;
            m.lock = 2;
        }
        "C16w" => {
            m.set = 30;
            m.delete = 10;
            m.pdelete = 2;
            m.cset = 5;
            m.publish = 5;
            m.sleep = 6;
        }
        "C13" => {
            m.get = 6;
            m.cget = 4;
            m.pget = 6;
            m.set = 8;
            m.cset = 6;
            m.delete = 5;
            m.pdelete = 4;
            m.ls = 4;
            m.pls = 4;
            m.publish = 4;
            m.spub = 5;
            m.subscribe = 4;
            m.psubscribe = 4;
            m.unsubscribe = 5;
            m.subscribe_ls = 3;
            m.unsubscribe_ls = 3;
            m.lock = 3;
            m.acquire = 2;
            m.release = 4;
            m.grave_goods = 1;
            m.last_will = 1;
        }
        "C17" => {
            m.sys_odd = 8;
            m.bad = 15;
            m.get = 5;
            m.set = 10;
            m.cset = 8;
            m.delete = 8;
            m.pdelete = 5;
            m.release = 8;
            m.lock = 5;
            m.acquire = 5;
            m.unsubscribe = 4;
            m.unsubscribe_ls = 3;
            m.subscribe = 3;
            m.psubscribe = 3;
            m.subscribe_ls = 3;
            m.spub = 4;
            m.ls = 4;
            m.pls = 3;
            m.pget = 3;
            m.grave_goods = 2;
            m.last_will = 2;
        }
        _ => {
            m.get = 1;
            m.set = 1;
        }
    }
    m
}

fn first_seg_wild(p: &str) -> bool {
    let f = p.split('/').next().unwrap_or("");
    f == "?" || f == "#"
}

/// outside the C08 check no client request may reach `$SYS` through a wildcard: the `$SYS`
/// leak (finding #4) would otherwise drown every other oracle
fn tame(op: &mut Op, rng: &mut Rng) {
    if let Op::Req(v) = op {
        if let Some(pd) = v.get_mut("pDelete") {
            if let Some(p) = pd.get("requestPattern").and_then(|x| x.as_str()) {
                if first_seg_wild(p) {
                    let np = format!("{}/{}", rng.pick(&["a", "b"]), p);
                    pd["requestPattern"] = json!(np);
                }
            }
        }
        if let Some(s) = v.get_mut("set") {
            if s.get("key").and_then(|k| k.as_str()).map(|k| k.ends_with("/graveGoods")).unwrap_or(false) {
                if let Some(arr) = s.get_mut("value").and_then(|x| x.as_array_mut()) {
                    for p in arr.iter_mut() {
                        if let Some(ps) = p.as_str() {
                            if first_seg_wild(ps) {
                                *p = json!(format!("{}/{}", rng.pick(&["a", "b"]), ps));
                            }
                        }
                    }
                }
            }
        }
    }
}

fn gen_import(rng: &mut Rng, n: usize) -> String {
    // a PersistedStore document {"data": node}; node = {"v": entry?, "t": {seg: node}}
    fn node(rng: &mut Rng, depth: u32, tag: &mut usize, n: usize) -> Value {
        let mut o = serde_json::Map::new();
        let leaf = depth >= 3 || rng.chance(1, 3);
        if leaf || rng.chance(1, 3) {
            *tag += 1;
            let val = json!(format!("i{n}_{}", *tag));
            if rng.chance(1, 3) {
                let ver = *rng.pick(&[1u64, 2, 5, 1000]);
                o.insert("v".into(), json!({"Cas": [val, ver]}));
            } else {
                o.insert("v".into(), val);
            }
        }
        if !leaf {
            let mut t = serde_json::Map::new();
            for _ in 0..rng.range(1, 2) {
                let seg = *rng.pick(&["a", "b", "c"]);
                t.insert(seg.into(), node(rng, depth + 1, tag, n));
            }
            o.insert("t".into(), Value::Object(t));
        }
        Value::Object(o)
    }
    let mut tag = 0;
    let mut t = serde_json::Map::new();
    for _ in 0..rng.range(1, 2) {
        let seg = *rng.pick(&["a", "b"]);
        t.insert(seg.into(), node(rng, 1, &mut tag, n));
    }
    json!({"data": {"t": t}}).to_string()
}

pub fn gen_plan(rng: &mut Rng, focus: &str, thorough: bool) -> WirePlan {
    let knobs = if rng.chance(1, 6) {
        KnobSpec::calm()
    } else {
        KnobSpec::draw(rng)
    };
    let mix = mix_for(focus);
    let max_clients = if thorough { 5 } else { 4 };
    let n_clients = match focus {
        "C02" | "C06" => rng.range(2, max_clients),
        _ => rng.range(1, max_clients),
    } as usize;
    let max_ops = if thorough { 40 } else { 20 };
    let depth = *rng.pick(&[2u64, 3, 3, 4]);
    let n_lock_keys = rng.range(1, 3) as usize;
    let lock_keys: Vec<String> = ["a", "a/b", "b"][..n_lock_keys].iter().map(|s| s.to_string()).collect();
    let n_cas = rng.range(1, 2) as usize;
    let cas_keys: Vec<String> = ["a/b", "b"][..n_cas].iter().map(|s| s.to_string()).collect();
    let mut clients = vec![];
    for c in 0..n_clients {
        let n_ops = rng.range(3, max_ops) as usize;
        let v1_only = matches!(focus, "C02" | "C06");
        let mut cp = gen_::gen_client(rng, c, &mix, n_ops, depth, &lock_keys, &cas_keys, v1_only);
        if cp.proto == Some(0) {
            // v1-only requests end a v0 session (session-level refusal): keep them rare
            for op in cp.ops.iter_mut() {
                let v1 = match op {
                    Op::Req(v) => v.get("cGet").is_some()
                        || v.get("cSet").is_some()
                        || v.get("lock").is_some()
                        || v.get("acquireLock").is_some()
                        || v.get("releaseLock").is_some(),
                    Op::CasCycle { .. } | Op::CasRewrite { .. } => true,
                    _ => false,
                };
                if v1 && !rng.chance(1, 15) {
                    *op = Op::Req(json!({"get": {"key": gen_::key(rng, depth)}}));
                }
            }
        }
        if focus != "C08" {
            for op in cp.ops.iter_mut() {
                tame(op, rng);
            }
        }
        if focus == "C12" {
            // the {"Cas":[x,n]} serialisation ambiguity (finding F7) is C09's and C11's matter
            fn plain(v: &mut Value) {
                let repl = match v {
                    Value::Object(o) if o.len() == 1 && o.contains_key("Cas") => {
                        o.get("Cas").and_then(|c| c.as_array()).and_then(|a| a.first()).cloned()
                    }
                    _ => None,
                };
                if let Some(r) = repl {
                    *v = r;
                    return;
                }
                match v {
                    Value::Object(o) => o.values_mut().for_each(plain),
                    Value::Array(a) => a.iter_mut().for_each(plain),
                    _ => {}
                }
            }
            for op in cp.ops.iter_mut() {
                if let Op::Req(v) = op {
                    plain(v);
                }
            }
        }
        if matches!(focus, "C07" | "C06" | "C03" | "C11" | "C12") && rng.chance(1, 2) {
            cp.end = *rng.pick(&[EndKind::Close, EndKind::Reset]);
        }
        if matches!(focus, "C07" | "C06" | "C02" | "C03") && rng.chance(1, 5) && !cp.ops.is_empty() {
            cp.crash_after_op = Some(rng.below(cp.ops.len() as u64) as usize);
        }
        if focus == "C17" && rng.chance(1, 2) {
            // the last client is the well-behaved witness session
        }
        clients.push(cp);
    }
    if focus == "C17" {
        // a well-behaved witness session that must keep being served
        let wmix = mix_for("C01");
        let wn = rng.range(5, 20) as usize;
        let mut w = gen_::gen_client(rng, n_clients, &wmix, wn, depth, &lock_keys, &cas_keys, true);
        for op in w.ops.iter_mut() {
            tame(op, rng);
        }
        w.end = EndKind::Stay;
        w.pipeline = false;
        w.think_us = 1000;
        w.proto = Some(1);
        clients.push(w);
    }
    let mut imports = vec![];
    if matches!(focus, "C01" | "C03" | "C05" | "C11" | "C12") && rng.chance(1, 3) {
        for n in 0..rng.range(1, 2) {
            imports.push((rng.range(0, 100_000), gen_import(rng, n as usize)));
        }
    }
    // sweeping deletes: a pattern with a leading wildcard empties several top level keys at once,
    // watched by ls-subscriptions on the root and on the parents that go away
    if focus == "C05" && rng.chance(1, 3) && !clients.is_empty() {
        let watcher = rng.below(clients.len() as u64) as usize;
        let parent = match rng.below(4) {
            0 | 1 => Value::Null,
            2 => json!("a"),
            _ => json!("b"),
        };
        clients[watcher].ops.insert(0, Op::Req(json!({"subscribeLs": {"parent": parent}})));
        let sweeper = rng.below(clients.len() as u64) as usize;
        let seg = *rng.pick(&["a", "b", "c"]);
        let pat = match rng.below(5) {
            0 => "#".to_owned(),
            1 => "?/#".to_owned(),
            2 => "?/?".to_owned(),
            _ => format!("?/{seg}"),
        };
        let ops = &mut clients[sweeper].ops;
        for (i, top) in ["a", "b", "c"].iter().enumerate() {
            if rng.chance(2, 3) {
                ops.push(Op::Req(json!({"set": {"key": format!("{top}/{seg}"), "value": format!("sw{sweeper}_{i}")}})));
            }
        }
        ops.push(Op::Req(json!({"pDelete": {"requestPattern": pat}})));
    }
    // a registration that ends *before* the leader is lost: one client registers and leaves in an
    // orderly way, another one writes into the pattern and onto the last-will key afterwards and
    // stays. Nothing of the first client's registrations may be executed later (on a follower or
    // on the leader promoted from it).
    if matches!(focus, "C11" | "C12") && rng.chance(1, 3) {
        clients.push(ClientPlan {
            proto: Some(1),
            pipeline: false,
            start_delay_us: rng.range(0, 20_000),
            think_us: 0,
            ops: vec![
                Op::Req(json!({"set": {"key": "$SYS/clients/<SELF>/graveGoods", "value": ["q/#"]}})),
                Op::Req(json!({"set": {"key": "$SYS/clients/<SELF>/lastWill", "value": [{"key": "q/w", "value": "left"}]}})),
                Op::Req(json!({"get": {"key": "q/w"}})),
            ],
            end: EndKind::Close,
            crash_after_op: None,
            auth_token: None,
            tcp: false,
        });
        clients.push(ClientPlan {
            proto: Some(1),
            pipeline: false,
            start_delay_us: 400_000 + rng.range(0, 50_000),
            think_us: 0,
            ops: vec![
                Op::Req(json!({"set": {"key": "q/k", "value": "kept"}})),
                Op::Req(json!({"set": {"key": "q/w", "value": "rewritten"}})),
            ],
            end: EndKind::Stay,
            crash_after_op: None,
            auth_token: None,
            tcp: false,
        });
    }
    // an import that re-states a value some client writes, but as another kind of entry or with
    // another CAS version: nothing visible changes except cget's version and what later writes
    // are accepted
    if matches!(focus, "C01" | "C02" | "C11") && rng.chance(1, 3) {
        let mut written: Vec<(String, Value)> = vec![];
        for c in &clients {
            for op in &c.ops {
                if let Op::Req(v) = op {
                    for kind in ["set", "cSet"] {
                        if let Some(m) = v.get(kind) {
                            if let (Some(k), Some(val)) = (m.get("key").and_then(|k| k.as_str()), m.get("value")) {
                                if !model::is_sys(k) && model::has_wildcard(k).is_none() && !k.is_empty() && !k.split('/').any(|s| s.is_empty()) {
                                    written.push((k.to_owned(), val.clone()));
                                }
                            }
                        }
                    }
                }
            }
        }
        if !written.is_empty() {
            let (k, val) = rng.pick(&written).clone();
            let entry = if rng.chance(2, 3) {
                json!({"Cas": [val, *rng.pick(&[1u64, 2, 3, 7])]})
            } else {
                val
            };
            let mut node = json!({"v": entry});
            for seg in k.split('/').rev() {
                node = json!({"t": {seg: node}});
            }
            // long after the clients are done: two announcements of the same key and value
            // cannot be told apart, so the import must not race with the write it re-states; the
            // read-back at the end shows whether kind and version are the imported ones
            imports.push((60_000_000 + rng.range(0, 1_000), json!({"data": node}).to_string()));
        }
    }
    let mut auth = None;
    if focus == "C15" {
        let pats = ["a/#", "a/?", "b", "#", "a/b/#", "?/a", "a", "b/#", "?", "a/?/?"];
        let mut grants = vec![];
        for cp in clients.iter_mut() {
            let kind = match rng.below(8) {
                0 => crate::check_extra::TokenKind::Missing,
                1 => crate::check_extra::TokenKind::Forged,
                2 => crate::check_extra::TokenKind::Expired,
                _ => crate::check_extra::TokenKind::Valid,
            };
            let mut pick = |rng: &mut Rng| -> Vec<String> {
                (0..rng.range(0, 3)).map(|_| rng.pick(&pats).to_string()).collect()
            };
            grants.push(crate::check_extra::Grant {
                kind,
                read: pick(rng),
                write: pick(rng),
                delete: pick(rng),
            });
            cp.proto = *rng.pick(&[None, Some(1)]);
            cp.crash_after_op = None;
        }
        auth = Some(crate::check_extra::AuthSpec {
            key: "sim-secret-key".into(),
            grants,
        });
        // siblings whose name merely *starts with* a granted literal (a → ab, b → b2): segments
        // are compared as wholes, not as text
        if rng.chance(1, 2) {
            for cp in clients.iter_mut() {
                for op in cp.ops.iter_mut() {
                    if let Op::Req(v) = op {
                        if !rng.chance(1, 4) {
                            continue;
                        }
                        if let Some(body) = v.as_object_mut().and_then(|o| o.values_mut().next()).and_then(|b| b.as_object_mut()) {
                            for f in ["key", "requestPattern", "parent", "parentPattern"] {
                                if let Some(Value::String(k)) = body.get_mut(f) {
                                    let mut segs: Vec<String> = k.split('/').map(|x| x.to_owned()).collect();
                                    let i = rng.below(segs.len() as u64) as usize;
                                    match segs[i].as_str() {
                                        "a" => segs[i] = "ab".into(),
                                        "b" => segs[i] = "b2".into(),
                                        _ => {}
                                    }
                                    *k = segs.join("/");
                                }
                            }
                        }
                    }
                }
            }
        }
    }
    if focus == "C16" {
        // client 0: the subscriber (plain + aggregated twin on the same pattern, set up before any
        // writer starts); the others: writers producing bursts, repeated keys, set/delete alternation
        clients.clear();
        let n_pairs = rng.range(1, 2);
        let mut ops = vec![];
        for _ in 0..n_pairs {
            let pat = rng.pick(&["a/#", "#", "a/?", "b/#", "?/a"]).to_string();
            let unique = rng.chance(1, 3);
            let live = rng.chance(1, 2);
            let ms = *rng.pick(&[1u64, 10, 100, 1000]);
            let mut plain = json!({"requestPattern": pat, "unique": unique});
            let mut agg = json!({"requestPattern": pat, "unique": unique, "aggregateEvents": ms});
            if live {
                plain["liveOnly"] = json!(true);
                agg["liveOnly"] = json!(true);
            }
            if rng.chance(1, 2) {
                ops.push(Op::Req(json!({"pSubscribe": plain})));
                ops.push(Op::Req(json!({"pSubscribe": agg})));
            } else {
                ops.push(Op::Req(json!({"pSubscribe": agg})));
                ops.push(Op::Req(json!({"pSubscribe": plain})));
            }
        }
        clients.push(ClientPlan {
            proto: Some(1),
            pipeline: false,
            start_delay_us: 0,
            think_us: 0,
            ops,
            end: EndKind::Stay,
            crash_after_op: None,
            auth_token: None,
            tcp: false,
        });
        let wmix = mix_for("C16w");
        for c in 1..=rng.range(1, 3) as usize {
            let n_ops = rng.range(3, if thorough { 40 } else { 25 }) as usize;
            let mut w = gen_::gen_client(rng, c, &wmix, n_ops, 2, &lock_keys, &cas_keys, true);
            for op in w.ops.iter_mut() {
                tame(op, rng);
                if let Op::Sleep(us) = op {
                    *us = *rng.pick(&[500u64, 5_000, 50_000, 500_000, 1_500_000]);
                }
            }
            // heartbeat-style traffic: the same value written to the same key again and again
            if rng.chance(1, 2) {
                let hb_key = rng.pick(&["a/hb", "b/a", "a/a"]).to_string();
                for op in w.ops.iter_mut() {
                    if let Op::Req(v) = op {
                        if v.get("set").is_some() && rng.chance(1, 3) {
                            *v = json!({"set": {"key": hb_key, "value": "alive"}});
                        }
                    }
                }
            }
            w.start_delay_us = 2_000_000 + rng.range(0, 50_000);
            w.think_us = *rng.pick(&[0, 100, 2_000]);
            w.proto = Some(1);
            w.end = EndKind::Stay;
            w.crash_after_op = None;
            clients.push(w);
        }
    }
    let mut plan = WirePlan {
        focus: focus.to_owned(),
        knobs,
        channel_buffer_size: if focus == "C16" { *rng.pick(&[8usize, 1000]) } else { *rng.pick(&[1usize, 2, 8, 1000, 1000]) },
        extended_monitoring: rng.chance(1, 2),
        send_timeout_s: if rng.chance(1, 4) { Some(1) } else { None },
        clients,
        imports,
        sentinels: focus == "C08" || rng.chance(1, 4),
        depth,
        cluster: if matches!(focus, "C11" | "C12") {
            Some(crate::cluster::gen_spec(rng, focus, thorough))
        } else {
            None
        },
        auth,
        tcp_endpoint: false,
    };
    // drawn last, so that everything above is the same plan it was before TCP sessions existed:
    // in a third of the runs the server opens its TCP endpoint as well and each client picks one
    if rng.chance(1, 3) {
        plan.tcp_endpoint = true;
        for c in plan.clients.iter_mut() {
            c.tcp = rng.chance(1, 2);
        }
    }
    plan
}

fn witness_id() -> ClientId {
    ClientId::from_u128(0xffff_ffff_ffff_ffff_ffff_ffff_ffff_fff0)
}

fn keys_of_plan(plan: &WirePlan) -> BTreeSet<String> {
    fn walk(v: &Value, out: &mut BTreeSet<String>) {
        match v {
            Value::Object(o) => {
                for (k, x) in o {
                    if k == "key" || k == "parent" {
                        if let Some(s) = x.as_str() {
                            out.insert(s.to_owned());
                        }
                    }
                    walk(x, out);
                }
            }
            Value::Array(a) => a.iter().for_each(|x| walk(x, out)),
            _ => {}
        }
    }
    let mut out = BTreeSet::new();
    for c in &plan.clients {
        for op in &c.ops {
            match op {
                Op::Req(v) => walk(v, &mut out),
                Op::CasCycle { key, .. } | Op::CasRewrite { key, .. } => {
                    out.insert(key.clone());
                }
                _ => {}
            }
        }
    }
    out
}

pub async fn run(plan: WirePlan) -> Outcome {
    let mut out = Outcome::default();
    let focus = plan.focus.clone();
    let knobs = plan.knobs.clone();
    let cbs = plan.channel_buffer_size;
    let em = plan.extended_monitoring;
    let st = plan.send_timeout_s;
    let cl = plan.cluster.clone();
    let auth_key = plan.auth.as_ref().map(|a| a.key.clone());
    let tcp_on = plan.tcp_endpoint;
    let server = match harness::start_server("wb", move |c| {
        if tcp_on {
            c.tcp_disabled = false;
            c.tcp_endpoint = Some(worterbuch::Endpoint {
                tls: false,
                bind_addr: std::net::IpAddr::from([127, 0, 0, 1]),
                port: 0,
            });
        }
        c.auth_token_key = auth_key;
        c.channel_buffer_size = cbs;
        c.extended_monitoring = em;
        c.send_timeout = st.map(Duration::from_secs);
        if let Some(cl) = &cl {
            c.leader = true;
            c.sync_port = Some(cl.sync_port);
            c.use_persistence = true;
            c.persistence_interval = Duration::from_secs(cl.interval_s);
        }
    })
    .await
    {
        Ok(s) => s,
        Err(e) => {
            out.violate(&focus, "startup", "server did not start", e);
            return out;
        }
    };
    let hist = History::default();
    // the witness: an internal subscription on '#', live-only, not unique
    let (mut wrx, _) = match server
        .api
        .psubscribe(witness_id(), 1, "#".to_owned(), false, true)
        .await
    {
        Ok(x) => x,
        Err(e) => {
            out.violate(&focus, "startup", "witness subscription failed", format!("{e}"));
            return out;
        }
    };
    let wh = hist.clone();
    let witness_task = tokio::spawn(async move {
        while let Some(ev) = wrx.recv().await {
            wh.push(|seq| Ev::Witness { seq, ev });
        }
    });
    let mut sentinel_vals: BTreeMap<String, Value> = BTreeMap::new();
    if plan.sentinels {
        for (k, v) in [
            ("$SYS/sentinel/x", json!("sentinel-x")),
            ("$SYS/sentinel/y/z", json!({"s": "sentinel-yz"})),
        ] {
            let _ = server.api.set(k.to_owned(), v.clone(), INTERNAL_CLIENT_ID).await;
            sentinel_vals.insert(k.to_owned(), v);
        }
    }
    hist.mark("start");
    let followers = plan
        .cluster
        .as_ref()
        .map(|cl| crate::cluster::start_followers(cl, server.node, plan.channel_buffer_size));
    // clients
    let mut handles = vec![];
    let mut protos = BTreeMap::new();
    for (i, cp) in plan.clients.iter().enumerate() {
        protos.insert(i, cp.proto.unwrap_or(1));
        let mut cp = cp.clone();
        if let Some(a) = &plan.auth {
            if let Some(g) = a.grants.get(i) {
                cp.auth_token = mint_token(&a.key, g);
            }
        }
        let c = Client {
            idx: i,
            plan: cp.clone(),
            hist: hist.clone(),
            path: server.unix_path.clone(),
            tcp_addr: if plan.tcp_endpoint { Some(server.tcp_addr()) } else { None },
            answer_wait_us: 3_000_000,
        };
        handles.push(simcore::chaos::spawn_on(simcore::HARNESS, c.run()));
    }
    // imports through the API handle (what the HTTP endpoint calls)
    let mut import_handles = vec![];
    for (n, (at, doc)) in plan.imports.iter().enumerate() {
        let api = server.api.clone();
        let doc = doc.clone();
        let at = *at;
        let h = hist.clone();
        import_handles.push(tokio::spawn(async move {
            tokio::time::sleep(Duration::from_micros(at)).await;
            let s0 = simcore::ctx::seq();
            let r = api.import(doc.clone()).await;
            let s1 = simcore::ctx::seq();
            let _ = (n, h);
            (s0, s1, doc, r.map_err(|e| format!("{e}")))
        }));
    }
    // wait for the clients to finish their scripts (bounded in simulated time)
    let mut keep = vec![];
    let deadline = tokio::time::Instant::now() + Duration::from_secs(600);
    for h in handles {
        match tokio::time::timeout_at(deadline, h).await {
            Ok(Ok(k)) => keep.push(k),
            Ok(Err(_)) => {}
            Err(_) => {
                out.inconclusive = true;
            }
        }
    }
    let mut imports_done = vec![];
    for h in import_handles {
        if let Ok(Ok(x)) = tokio::time::timeout_at(deadline, h).await {
            imports_done.push(x);
        }
    }
    if plan.focus == "C16" {
        // let the longest aggregation interval (1000 ms) run out before looking for quiescence
        tokio::time::sleep(Duration::from_millis(1200) + Duration::from_micros(knobs.max_stall_us * 4)).await;
    }
    if !harness::quiesce(&knobs, 0).await {
        out.inconclusive = true;
    }
    hist.mark("quiescent");

    // ---- server still alive?
    let death = server.death();
    let panics = simcore::ctx::with(|s| s.panics.clone());
    let server_panics: Vec<String> = panics
        .iter()
        .filter(|(n, _)| *n == server.node)
        .map(|(_, m)| m.clone())
        .collect();
    let mut alive_probe_ok = true;
    if death.is_none() {
        match tokio::time::timeout(Duration::from_secs(5), server.api.entries()).await {
            Ok(Ok(_)) => {}
            _ => alive_probe_ok = false,
        }
    }
    if death.is_some() || !alive_probe_ok || server.finished() {
        let what = death.clone().unwrap_or_else(|| "API handle no longer answers".into());
        let msg = server_panics.first().cloned().unwrap_or_default();
        out.server_death = Some(format!("{what}; {msg}"));
        let mut sig = death_signature(&msg);
        if msg.is_empty() {
            // a hang, not a panic: is it the core blocking on its own $SYS bookkeeping events?
            let h = hist.snapshot();
            let starved = h.iter().any(|e| match e {
                Ev::Send { line, .. } => {
                    line.contains("\"pSubscribe\"")
                        && (line.contains("\"requestPattern\":\"?") || line.contains("\"requestPattern\":\"#/"))
                }
                _ => false,
            });
            if starved && plan.extended_monitoring && plan.channel_buffer_size < 4 {
                sig = "core task blocks forever on its own $SYS bookkeeping events: psubscribe with a pattern that matches $SYS, extended monitoring on, channel buffer smaller than 4".into();
            }
        }
        out.violate(
            "C17",
            "server-death",
            &sig,
            format!("{what}; panic: {msg}"),
        );
        let h = hist.snapshot();
        out.sample = Some(sample_of(&plan, &h));
        witness_task.abort();
        return out;
    }
    if !server_panics.is_empty() {
        out.probe_n("server_task_panics_survived", server_panics.len() as u64);
    }

    // ---- read-back through the API handle (unrestricted observer)
    let mut rb = ReadBack::default();
    rb.entries_before = server.api.entries().await.unwrap_or(usize::MAX);
    rb.pget_all = server.api.pget("#".to_owned()).await.unwrap_or_default();
    rb.entries_after = server.api.entries().await.unwrap_or(usize::MAX - 1);
    let mut keys = keys_of_plan(&plan);
    for kv in &rb.pget_all {
        if !model::is_sys(&kv.key) {
            keys.insert(kv.key.clone());
        }
    }
    let mut parents: BTreeSet<Option<String>> = BTreeSet::new();
    parents.insert(None);
    for k in &keys {
        if model::is_sys(k) || k.contains('?') || k.contains('#') {
            continue;
        }
        let segs: Vec<&str> = k.split('/').collect();
        for d in 1..=segs.len() {
            parents.insert(Some(segs[..d].join("/")));
        }
        let r = server.api.cget(k.clone()).await;
        rb.cgets.insert(
            k.clone(),
            r.map_err(|e| {
                serde_json::to_value(worterbuch_common::ErrorCode::from(&e))
                    .ok()
                    .and_then(|v| v.as_u64())
                    .unwrap_or(255) as u8
            }),
        );
    }
    for p in parents {
        let r = server.api.ls(p.clone()).await;
        rb.ls.insert(
            p,
            r.map_err(|e| {
                serde_json::to_value(worterbuch_common::ErrorCode::from(&e))
                    .ok()
                    .and_then(|v| v.as_u64())
                    .unwrap_or(255) as u8
            }),
        );
    }
    // sentinels
    for (k, v) in &sentinel_vals {
        match server.api.get(k.clone()).await {
            Ok(x) if &x == v => {}
            other => out.violate(
                "C08",
                "sentinel-changed",
                "a protected $SYS key was changed or removed by a client request",
                format!("{k}: expected {v}, found {:?}", other.map_err(|e| format!("{e}"))),
            ),
        }
    }

    // ---- history checks
    let mut history = hist.snapshot();
    // lock state at the end, probed through the API handle *after* the history was taken (the
    // probe's own bookkeeping events are nobody's business): key -> still locked by somebody
    let mut lock_probe: BTreeMap<String, bool> = BTreeMap::new();
    {
        let mut lock_keys: BTreeSet<String> = BTreeSet::new();
        for c in &plan.clients {
            for op in &c.ops {
                if let Op::Req(v) = op {
                    for kind in ["lock", "acquireLock", "releaseLock"] {
                        if let Some(k) = v.get(kind).and_then(|m| m.get("key")).and_then(|k| k.as_str()) {
                            if model::has_wildcard(k).is_none() && !k.is_empty() {
                                lock_keys.insert(k.to_owned());
                            }
                        }
                    }
                }
            }
        }
        if !lock_keys.is_empty() {
            let probe_id = ClientId::from_u128(0xffff_ffff_ffff_ffff_ffff_ffff_ffff_fe02);
            let t = Duration::from_secs(10);
            let _ = tokio::time::timeout(t, server.api.connected(probe_id, None, worterbuch_common::Protocol::TCP)).await;
            for k in lock_keys {
                match tokio::time::timeout(t, server.api.lock(k.clone(), probe_id)).await {
                    Ok(Ok(())) => {
                        lock_probe.insert(k.clone(), false);
                        let _ = tokio::time::timeout(t, server.api.release_lock(k, probe_id)).await;
                    }
                    Ok(Err(worterbuch_common::error::WorterbuchError::KeyIsLocked(_))) => {
                        lock_probe.insert(k, true);
                    }
                    _ => {}
                }
            }
            let _ = tokio::time::timeout(t, server.api.disconnected(probe_id, None)).await;
        }
    }
    // API imports become pseudo requests of the API client
    let _ = &mut history;
    let mut parsed = check_wire::parse(&history, &protos);
    crate::check_import::add_imports(&mut parsed, &imports_done);
    let alive: BTreeSet<usize> = plan
        .clients
        .iter()
        .enumerate()
        .filter(|(i, c)| {
            c.end == EndKind::Stay
                && c.crash_after_op.is_none()
                && parsed
                    .clients
                    .get(i)
                    .map(|ci| ci.closed_seen.is_none() && ci.closed_by_client.is_none() && ci.client_id.is_some())
                    .unwrap_or(false)
        })
        .map(|(i, _)| i)
        .collect();
    let rp;
    {
        let mut ck = Checker {
            p: &mut parsed,
            out: &mut out,
            focus: &focus,
        };
        rp = ck.replay();
        if !ck.out.inconclusive {
            ck.check_group_order(&rp);
            ck.check_unplaced(&rp);
            ck.check_subscriptions(&rp);
            ck.check_ls_subscriptions(&rp, &alive);
            let pending_ok = crate::check_locks::check(&mut ck, &rp, &alive, &lock_probe);
            ck.check_answers(&alive, &pending_ok);
            ck.check_readback(&rp, &rb);
            if let Some(a) = &plan.auth {
                crate::check_extra::check_auth(&mut ck, a);
            }
            let calm = plan.knobs.max_stall_us == 0 && plan.knobs.lat_max_us == 0 && plan.knobs.p_defer == 0;
            crate::check_extra::check_aggregated(&mut ck, calm);
            crate::check_import::check_session_ends(&mut ck, &rp, &plan);
        }
    }
    out.model_states = rp.states.len() as u64;
    if std::env::var("WBSIM_DEBUG_GROUPS").is_ok() {
        for (g, fx) in rp.groups.iter().zip(rp.effects.iter()) {
            eprintln!("group {:?} inv={} resp={} w={} fx={:?}", g.what, g.inv, g.resp, g.w, fx);
        }
    }
    if let (Some(cl), Some((fs, tasks))) = (&plan.cluster, &followers) {
        for t in tasks {
            // follower life cycles are bounded by their own timers
            let _ = t;
        }
        let mut imported_cas: BTreeSet<String> = plan
            .imports
            .iter()
            .flat_map(|(_, d)| crate::check_import::flatten(d))
            .filter(|(_, _, c)| c.is_some())
            .map(|(k, _, _)| k)
            .collect();
        for c in &plan.clients {
            for op in &c.ops {
                if let Op::Req(v) = op {
                    for kind in ["set", "cSet", "publish"] {
                        if let Some(m) = v.get(kind) {
                            let shaped = m
                                .get("value")
                                .and_then(|x| x.as_object())
                                .map(|o| o.len() == 1 && o.contains_key("Cas"))
                                .unwrap_or(false);
                            if let (true, Some(k)) = (shaped, m.get("key").and_then(|k| k.as_str())) {
                                imported_cas.insert(format!("\u{0}casshape:{k}"));
                            }
                        }
                    }
                }
            }
        }
        // give the follower life cycles (late joins, restarts, partitions) time to finish
        tokio::time::sleep(Duration::from_millis(500)).await;
        if out.inconclusive {
            // the order of changes could not be established: no basis for attributing differences
        } else if let Some((lv, views)) =
            crate::cluster::check_convergence(&mut out, cl, &server, fs, &rp, &imported_cas).await
        {
            if let Some(p) = &cl.promote {
                crate::cluster::check_promotion(&mut out, cl, p, &server, fs, &lv, &views).await;
            }
        }
        for f in fs.lock().expect("followers").iter() {
            if let Some(e) = &f.failed {
                out.probe("follower_start_failed");
                let _ = e;
            }
        }
    }
    // witness session of C17 must have been served throughout
    if focus == "C17" {
        let wi = plan.clients.len() - 1;
        if !alive.contains(&wi) {
            out.violate(
                "C17",
                "witness-session-closed",
                "a well-behaved session was closed although it did nothing wrong",
                format!("witness client {wi}"),
            );
        }
    }
    // non-triviality
    out.nontrivial = nontrivial(&plan, &parsed, &rp);
    for (k, v) in probes_of(&parsed, &rp) {
        out.probe_n(&k, v);
    }
    if !out.violations.is_empty() || simcore::ctx::with(|s| s.seed % 97 == 0) {
        out.sample = Some(sample_of(&plan, &history));
    }
    drop(keep);
    witness_task.abort();
    out
}

fn mint_token(key: &str, g: &crate::check_extra::Grant) -> Option<String> {
    use crate::check_extra::TokenKind;
    let now = std::time::SystemTime::now()
        .duration_since(std::time::UNIX_EPOCH)
        .map(|d| d.as_secs())
        .unwrap_or(0);
    let (signing_key, exp) = match g.kind {
        TokenKind::Missing => return None,
        TokenKind::Forged => ("another-key", now + 3600),
        TokenKind::Expired => (key, now.saturating_sub(7200)),
        TokenKind::Valid => (key, now + 3600),
    };
    let claims = json!({
        "sub": "sim",
        "name": "simulated client",
        "exp": exp,
        "worterbuchPrivileges": {"read": g.read, "write": g.write, "delete": g.delete},
    });
    jsonwebtoken::encode(
        &jsonwebtoken::Header::new(jsonwebtoken::Algorithm::HS256),
        &claims,
        &jsonwebtoken::EncodingKey::from_secret(signing_key.as_bytes()),
    )
    .ok()
}

pub fn death_signature(panic_msg: &str) -> String {
    if panic_msg.contains("store.rs") && panic_msg.contains("is_clean") && panic_msg.contains("self.data") {
        "store tree left unclean: debug assertion in delete fails, the core task panics and the server stops".into()
    } else if panic_msg.contains("store.rs") && panic_msg.contains("self.locks") {
        "lock tree left unclean: debug assertion in lock release fails, the core task panics and the server stops".into()
    } else if panic_msg.contains("overflow") {
        format!("arithmetic overflow in the core task: {}", first_line(panic_msg))
    } else if panic_msg.is_empty() {
        "server stopped without a panic message".into()
    } else {
        format!("server task panicked: {}", first_line(panic_msg))
    }
}

fn first_line(s: &str) -> String {
    s.lines().next().unwrap_or("").chars().take(160).collect()
}

fn nontrivial(plan: &WirePlan, parsed: &check_wire::Parsed, rp: &check_wire::Replay) -> bool {
    let answered = parsed.ops.iter().filter(|o| o.ans.is_some()).count();
    let errs = parsed
        .ops
        .iter()
        .filter(|o| o.ans.as_ref().map(|a| check_wire::sm_code(&a.1).is_some()).unwrap_or(false))
        .count();
    match plan.focus.as_str() {
        "C01" | "C05" => {
            (plan.clients.len() >= 2 && rp.groups.len() >= 3 && answered >= 6) || (errs >= 1 && rp.groups.len() >= 2)
        }
        "C02" => rp.groups.len() >= 3 && plan.clients.len() >= 2,
        "C03" => parsed.subs.len() >= 1 && rp.groups.len() >= 3,
        "C07" => !rp.ended.is_empty() && rp.groups.len() >= 2,
        "C11" | "C12" => rp.groups.len() >= 3,
        "C13" => answered >= 5 && errs >= 1,
        "C15" => answered >= 4 && errs >= 1,
        "C16" => parsed.subs.values().any(|s| s.msgs.len() >= 3),
        _ => answered >= 3,
    }
}

fn probes_of(parsed: &check_wire::Parsed, rp: &check_wire::Replay) -> BTreeMap<String, u64> {
    let mut m = BTreeMap::new();
    m.insert("requests".into(), parsed.ops.len() as u64);
    m.insert("answers".into(), parsed.ops.iter().filter(|o| o.ans.is_some()).count() as u64);
    m.insert(
        "error_answers".into(),
        parsed
            .ops
            .iter()
            .filter(|o| o.ans.as_ref().map(|a| check_wire::sm_code(&a.1).is_some()).unwrap_or(false))
            .count() as u64,
    );
    m.insert("mutation_groups".into(), rp.groups.len() as u64);
    m.insert("session_ends_observed".into(), rp.ended.len() as u64);
    m.insert("witness_events".into(), parsed.witness.len() as u64);
    m.insert(
        "subscription_events".into(),
        parsed.subs.values().map(|s| s.msgs.len() as u64).sum(),
    );
    m
}

pub fn sample_of(plan: &WirePlan, history: &[Ev]) -> Value {
    let mut lines = vec![];
    for ev in history.iter().take(400) {
        let l = match ev {
            Ev::Send { seq, client, line, .. } => format!("{seq} c{client} -> {line}"),
            Ev::Recv { seq, client, msg, .. } => format!("{seq} c{client} <- {}", check_wire::describe(msg)),
            Ev::RecvGarbage { seq, client, line } => format!("{seq} c{client} <- GARBAGE {line}"),
            Ev::Closed { seq, client, how } => format!("{seq} c{client} closed: {how}"),
            Ev::Welcome { seq, client, client_id } => format!("{seq} c{client} welcome {client_id}"),
            Ev::Witness { seq, ev } => {
                let s = serde_json::to_string(ev).unwrap_or_default();
                if s.contains("$SYS") && std::env::var("WBSIM_SHOW_SYS").is_err() {
                    continue;
                }
                format!("{seq} witness {s}")
            }
            Ev::Mark { seq, label } => format!("{seq} -- {label}"),
        };
        lines.push(l.chars().take(240).collect::<String>());
    }
    json!({"clients": plan.clients.len(), "history": lines})
}

/// candidates for shrinking: fewer clients, fewer operations, calmer knobs
pub fn shrink(plan: &WirePlan) -> Vec<WirePlan> {
    let mut out = vec![];
    // drop a client (never the C17 witness, which is last)
    let droppable = if plan.focus == "C17" {
        plan.clients.len().saturating_sub(1)
    } else {
        plan.clients.len()
    };
    if plan.clients.len() > 1 {
        for i in 0..droppable {
            let mut p = plan.clone();
            p.clients.remove(i);
            out.push(p);
        }
    }
    if !plan.imports.is_empty() {
        for i in 0..plan.imports.len() {
            let mut p = plan.clone();
            p.imports.remove(i);
            out.push(p);
        }
    }
    // halve / drop single operations
    for (ci, c) in plan.clients.iter().enumerate() {
        if c.ops.len() > 1 {
            let mut p = plan.clone();
            let n = c.ops.len();
            p.clients[ci].ops.truncate(n / 2);
            if let Some(k) = p.clients[ci].crash_after_op {
                if k >= n / 2 {
                    p.clients[ci].crash_after_op = None;
                }
            }
            out.push(p);
            let mut p = plan.clone();
            p.clients[ci].ops.drain(..n / 2);
            p.clients[ci].crash_after_op = None;
            out.push(p);
        }
        if c.ops.len() <= 12 {
            for oi in 0..c.ops.len() {
                let mut p = plan.clone();
                p.clients[ci].ops.remove(oi);
                p.clients[ci].crash_after_op = match p.clients[ci].crash_after_op {
                    Some(k) if k > oi => Some(k - 1),
                    Some(k) if k == oi => None,
                    x => x,
                };
                out.push(p);
            }
        }
        if c.pipeline {
            let mut p = plan.clone();
            p.clients[ci].pipeline = false;
            out.push(p);
        }
        if c.think_us > 0 || c.start_delay_us > 0 {
            let mut p = plan.clone();
            p.clients[ci].think_us = 0;
            p.clients[ci].start_delay_us = 0;
            out.push(p);
        }
        if c.crash_after_op.is_some() {
            let mut p = plan.clone();
            p.clients[ci].crash_after_op = None;
            out.push(p);
        }
    }
    if plan.knobs != KnobSpec::calm() {
        let mut p = plan.clone();
        p.knobs = KnobSpec::calm();
        out.push(p);
        let mut p = plan.clone();
        p.knobs.p_defer = 0;
        p.knobs.p_stall = 0;
        out.push(p);
        let mut p = plan.clone();
        p.knobs.p_frag = 0;
        p.knobs.p_io_pending = 0;
        p.knobs.lat_max_us = 0;
        out.push(p);
    }
    if plan.channel_buffer_size != 1000 {
        let mut p = plan.clone();
        p.channel_buffer_size = 1000;
        out.push(p);
    }
    if plan.extended_monitoring {
        let mut p = plan.clone();
        p.extended_monitoring = false;
        out.push(p);
    }
    if let Some(cl) = &plan.cluster {
        if cl.followers.len() > 1 {
            for i in 0..cl.followers.len() {
                let mut p = plan.clone();
                p.cluster.as_mut().expect("cluster").followers.remove(i);
                out.push(p);
            }
        }
        for (i, f) in cl.followers.iter().enumerate() {
            if f.restart_at_us.is_some() || f.partition.is_some() || f.join_at_us > 0 {
                let mut p = plan.clone();
                let ff = &mut p.cluster.as_mut().expect("cluster").followers[i];
                if ff.restart_at_us.is_some() {
                    ff.restart_at_us = None;
                } else if ff.partition.is_some() {
                    ff.partition = None;
                } else {
                    ff.join_at_us = 0;
                }
                out.push(p);
            }
        }
    }
    if plan.sentinels && plan.focus != "C08" {
        let mut p = plan.clone();
        p.sentinels = false;
        out.push(p);
    }
    out
}
