//! `tokio` as seen by the code under test: everything is real tokio except the items that touch
//! the outside world (sockets, files, child processes) and `spawn` (seeded scheduler wrapper).
#![allow(ambiguous_glob_reexports)]

pub use tokio_real::*;

pub mod net {
    pub use simcore::net::{
        TcpListener, TcpSocket, TcpStream, ToSimAddr as ToSocketAddrs, UdpSocket, UnixListener,
        UnixStream, tcp, unix,
    };
}

pub mod fs {
    pub use simcore::fs::*;
}

pub mod process {
    pub use simcore::process::{Child, ChildStdin, Command};
}

pub use simcore::chaos::spawn;

pub mod task {
    pub use simcore::chaos::spawn;
    pub use tokio_real::task::{
        AbortHandle, JoinError, JoinHandle, JoinSet, LocalSet, block_in_place, spawn_blocking,
        yield_now,
    };
}
