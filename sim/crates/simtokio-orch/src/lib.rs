//! Facade variant used by worterbuch-cluster-orchestrator: like `wbsim-tokio`, but
//! `net::TcpListener` is the real one (its stats endpoint passes it to `axum::serve`).
#![allow(ambiguous_glob_reexports)]

pub use tokio_real::*;

pub mod net {
    pub use simcore::net::{
        TcpSocket, TcpStream, ToSimAddr as ToSocketAddrs, UdpSocket, UnixListener, UnixStream, tcp,
        unix,
    };
    pub use tokio_real::net::TcpListener;
}

pub mod fs {
    pub use simcore::fs::*;
}

pub mod process {
    pub use simcore::process::{Child, ChildStdin, Command};
}

pub use simcore::chaos::spawn;

pub mod task {
    pub use simcore::chaos::spawn;
    pub use tokio_real::task::{
        AbortHandle, JoinError, JoinHandle, JoinSet, LocalSet, block_in_place, spawn_blocking,
        yield_now,
    };
}
